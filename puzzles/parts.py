"""C11 specs for the partition puzzles (fillomino, compass, fivecells), view and shakashaka."""

import functools
import itertools

from hypothesis import strategies as st

from vlib import graphref

from .base import Spec, components, connected, draw_board, draw_rooms, flat_bools, flat_sol, mask_cells, neighbors4


def connected_partitions(cells):
    """all partitions of `cells` into orthogonally connected blocks -> list of lists of sets"""
    cells = list(cells)
    out = []
    for labels in graphref.set_partitions(len(cells)):
        blocks = {}
        for c, lab in zip(cells, labels):
            blocks.setdefault(lab, set()).add(c)
        if all(connected(b) for b in blocks.values()):
            out.append(list(blocks.values()))
    return out


class Fillomino(Spec):
    name = "fillomino"
    max_cells_quick = 8
    max_cells_thorough = 9

    def instance(self, draw, max_cells):
        h, w = draw_board(draw, st, max_cells, max_side=4)
        rooms, _ = draw_rooms(draw, st, h, w, (1, 1, 2))
        prob = [[0] * w for _ in range(h)]
        for r in rooms:
            for (y, x) in r:
                if draw(st.integers(0, 2)) == 0:
                    prob[y][x] = len(r)
        if draw(st.integers(0, 3)) == 0:
            prob[draw(st.integers(0, h - 1))][draw(st.integers(0, w - 1))] = draw(st.integers(1, 4))
        return dict(h=h, w=w, problem=prob, checkered=draw(st.integers(0, 3)) == 0)

    def solve(self, inst):
        from cspuz.puzzle import fillomino
        ok, size = fillomino.solve_fillomino(inst["h"], inst["w"], inst["problem"], checkered=inst["checkered"])
        return ok, flat_sol(size)

    def solutions(self, inst):
        h, w, p = inst["h"], inst["w"], inst["problem"]
        cells = [(y, x) for y in range(h) for x in range(w)]
        sols = []
        for blocks in connected_partitions(cells):
            bid = {c: i for i, b in enumerate(blocks) for c in b}
            size = {c: len(blocks[bid[c]]) for c in cells}
            ok = True
            adj = set()
            for (y, x) in cells:
                for q in neighbors4(y, x, h, w):
                    if bid[q] != bid[(y, x)]:
                        if size[q] == size[(y, x)]:
                            ok = False
                        adj.add((bid[(y, x)], bid[q]))
                if p[y][x] >= 1 and size[(y, x)] != p[y][x]:
                    ok = False
            if not ok:
                continue
            if inst["checkered"]:
                colour = {}
                good = True
                for s in range(len(blocks)):
                    if s in colour:
                        continue
                    colour[s] = 0
                    stack = [s]
                    while stack:
                        a = stack.pop()
                        for (u, v) in adj:
                            if u == a:
                                if v not in colour:
                                    colour[v] = 1 - colour[a]
                                    stack.append(v)
                                elif colour[v] == colour[a]:
                                    good = False
                if not good:
                    continue
            sols.append(tuple(size[c] for c in cells))
        return sols, 0

    def classes(self, inst):
        return ["checkered"] if inst["checkered"] else []


class Compass(Spec):
    name = "compass"
    max_cells_quick = 9
    max_cells_thorough = 10

    def instance(self, draw, max_cells):
        h, w = draw_board(draw, st, max_cells, max_side=4)
        rooms, _ = draw_rooms(draw, st, h, w, (1, 1, 1, 2))
        while len(rooms) > 3:
            # merge the last room into a neighbouring one to keep the label space small
            r = rooms.pop()
            for k, other in enumerate(rooms):
                if any(q in other for (y, x) in r for q in neighbors4(y, x, h, w)):
                    rooms[k] = other + r
                    break
            else:
                rooms.append(r)
                break
        prob = []
        for r in rooms:
            y, x = r[draw(st.integers(0, len(r) - 1))]
            vals = [sum(1 for c in r if c[0] < y), sum(1 for c in r if c[1] < x),
                    sum(1 for c in r if c[0] > y), sum(1 for c in r if c[1] > x)]
            vals = [v if draw(st.integers(0, 2)) else -1 for v in vals]
            if draw(st.integers(0, 5)) == 0:
                vals[draw(st.integers(0, 3))] = draw(st.integers(0, 3))
            prob.append([y, x] + vals)
        return dict(h=h, w=w, problem=prob)

    def solve(self, inst):
        from cspuz.puzzle import compass
        ok, div = compass.solve_compass(inst["h"], inst["w"], [tuple(c) for c in inst["problem"]])
        return ok, flat_sol(div)

    def solutions(self, inst):
        h, w, prob = inst["h"], inst["w"], inst["problem"]
        cells = [(y, x) for y in range(h) for x in range(w)]
        k = len(prob)
        sols = []
        pos = {(c[0], c[1]): i for i, c in enumerate(prob)}
        if len(pos) != k:
            return [], 0  # two compasses on one cell: no valid division
        for labels in itertools.product(range(k), repeat=len(cells)):
            lab = dict(zip(cells, labels))
            if any(lab[c] != i for c, i in pos.items()):
                continue
            ok = True
            for i, (y, x, u, l, d, r) in enumerate(prob):
                reg = {c for c in cells if lab[c] == i}
                if not connected(reg):
                    ok = False
                    break
                if u >= 0 and sum(1 for c in reg if c[0] < y) != u:
                    ok = False
                if l >= 0 and sum(1 for c in reg if c[1] < x) != l:
                    ok = False
                if d >= 0 and sum(1 for c in reg if c[0] > y) != d:
                    ok = False
                if r >= 0 and sum(1 for c in reg if c[1] > x) != r:
                    ok = False
                if not ok:
                    break
            if ok:
                sols.append(tuple(labels))
        return sols, 0

    def classes(self, inst):
        h, w = inst["h"], inst["w"]
        cl = []
        if any(c[0] in (0, h - 1) or c[1] in (0, w - 1) for c in inst["problem"]):
            cl.append("clue-on-border")
        if any(0 in c[2:] for c in inst["problem"]):
            cl.append("zero-clue")
        return cl


class Fivecells(Spec):
    name = "fivecells"
    max_cells_quick = 12
    max_cells_thorough = 16

    def instance(self, draw, max_cells):
        h, w = draw(st.sampled_from([(1, 5), (5, 1), (2, 5), (5, 2), (2, 3), (3, 2), (3, 4), (4, 3), (3, 5), (2, 6),
                                     (4, 4) if max_cells >= 16 else (3, 4)]))
        cells = [(y, x) for y in range(h) for x in range(w)]
        target = 10 if h * w >= 10 and draw(st.booleans()) else 5
        if h * w >= 15 and max_cells >= 16:
            target = draw(st.sampled_from([10, 15]))
        # remove cells (holes) until the usable count is the target, keeping things loosely connected
        holes = set()
        order = draw(st.permutations(cells))
        for c in order:
            if h * w - len(holes) <= target:
                break
            holes.add(c)
        prob = [[-2 if (y, x) in holes else -1 for x in range(w)] for y in range(h)]
        usable = [c for c in cells if c not in holes]
        # plant: a partition into connected 5-blocks if one exists
        parts = five_partitions(usable)
        if parts:
            blocks = parts[draw(st.integers(0, len(parts) - 1))]
            bid = {c: i for i, b in enumerate(blocks) for c in b}
            for (y, x) in usable:
                if draw(st.integers(0, 2)) == 0:
                    prob[y][x] = border_count(bid, y, x)
        if draw(st.integers(0, 3)) == 0 and usable:
            y, x = usable[draw(st.integers(0, len(usable) - 1))]
            prob[y][x] = draw(st.integers(0, 4))
        return dict(h=h, w=w, problem=prob)

    def solve(self, inst):
        from cspuz.puzzle import fivecells
        ok, is_border = fivecells.solve_fivecells(inst["h"], inst["w"], inst["problem"])
        return ok, flat_sol(is_border)

    def solutions(self, inst):
        h, w, p = inst["h"], inst["w"], inst["problem"]
        usable = [(y, x) for y in range(h) for x in range(w) if p[y][x] >= -1]
        us = set(usable)
        # the module's edge order: for y, x: the edge to (y+1, x) first, then to (y, x+1)
        edges = []
        for (y, x) in usable:
            if (y + 1, x) in us:
                edges.append(((y, x), (y + 1, x)))
            if (y, x + 1) in us:
                edges.append(((y, x), (y, x + 1)))
        sols = []
        for blocks in five_partitions(usable):
            bid = {c: i for i, b in enumerate(blocks) for c in b}
            if all(p[y][x] < 0 or border_count(bid, y, x) == p[y][x] for (y, x) in usable):
                sols.append(tuple(bid[a] != bid[b] for a, b in edges))
        return sols, 0

    def classes(self, inst):
        p = inst["problem"]
        cl = []
        if any(v == -2 for r in p for v in r):
            cl.append("holes")
        if any(v == 0 for r in p for v in r):
            cl.append("zero-clue")
        return cl


def border_count(bid, y, x):
    """sides of cell (y, x) that lie on a block border; the outer rim and holes count"""
    return sum(1 for q in ((y - 1, x), (y + 1, x), (y, x - 1), (y, x + 1)) if bid.get(q) != bid[(y, x)])


def five_partitions(usable):
    """all partitions of the usable cells into orthogonally connected blocks of exactly 5"""
    usable = sorted(usable)
    if len(usable) % 5:
        return []
    out = []

    def rec(rest, acc):
        if not rest:
            out.append(list(acc))
            return
        first = rest[0]
        others = rest[1:]
        for combo in itertools.combinations(others, 4):
            block = {first} | set(combo)
            if connected(block):
                rec([c for c in others if c not in block], acc + [block])

    rec(usable, [])
    return out


class View(Spec):
    name = "view"
    max_cells_quick = 10
    max_cells_thorough = 12

    def instance(self, draw, max_cells):
        h, w = draw_board(draw, st, max_cells, max_side=4)
        num = {(y, x) for y in range(h) for x in range(w) if draw(st.integers(0, 2)) > 0}
        prob = [[-1] * w for _ in range(h)]
        for (y, x) in sorted(num):
            if draw(st.integers(0, 2)) == 0:
                prob[y][x] = self.value(num, y, x, h, w)
        if draw(st.integers(0, 3)) == 0:
            prob[draw(st.integers(0, h - 1))][draw(st.integers(0, w - 1))] = draw(st.integers(0, 3))
        return dict(h=h, w=w, problem=prob)

    @staticmethod
    def value(num, y, x, h, w):
        k = 0
        for dy, dx in ((-1, 0), (1, 0), (0, -1), (0, 1)):
            yy, xx = y + dy, x + dx
            while 0 <= yy < h and 0 <= xx < w and (yy, xx) not in num:
                k += 1
                yy += dy
                xx += dx
        return k

    def solve(self, inst):
        from cspuz.puzzle import view
        ok, nums, has = view.solve_view(inst["h"], inst["w"], inst["problem"])
        return ok, flat_sol(nums) + flat_sol(has)

    def solutions(self, inst):
        h, w, p = inst["h"], inst["w"], inst["problem"]
        cells = [(y, x) for y in range(h) for x in range(w)]
        sols, dc = [], 0
        for m in range(1 << (h * w)):
            num = mask_cells(m, h, w)
            if any(p[y][x] >= 0 and (y, x) not in num for (y, x) in cells):
                continue
            if not connected(num):
                continue
            val = {c: self.value(num, c[0], c[1], h, w) for c in num}
            if any(p[y][x] >= 0 and val[(y, x)] != p[y][x] for (y, x) in num):
                continue
            if any(q in num and val[q] == val[(y, x)] for (y, x) in num for q in neighbors4(y, x, h, w)):
                continue
            if not num:
                dc += 1
                continue
            sols.append(tuple(val.get(c, 0) for c in cells) + tuple(c in num for c in cells))
        return sols, dc

    def classes(self, inst):
        h, w, p = inst["h"], inst["w"], inst["problem"]
        cl = []
        if any(v == 0 for r in p for v in r):
            cl.append("zero-clue")
        if any(p[y][x] >= 0 and (y in (0, h - 1) or x in (0, w - 1)) for y in range(h) for x in range(w)):
            cl.append("clue-on-border")
        return cl


# ------------------------------------------------------------------ shakashaka
# every cell is cut by its two diagonals into four small triangles N, E, S, W (area 1/4 each).
#   type 1: black corner top-left     -> black N, W        1   2   3   4
#   type 2: black corner bottom-left  -> black W, S        +-+ +     + +-+
#   type 3: black corner bottom-right -> black S, E        |/  |\   /|  \|
#   type 4: black corner top-right    -> black N, E        +   +-+ +-+   +
BLACK_PARTS = {0: "", 1: "NW", 2: "WS", 3: "SE", 4: "NE"}
# vertices of the small triangles in doubled coordinates relative to the cell's top-left corner (y, x)
TRI = {"N": ((0, 0), (0, 2), (1, 1)), "E": ((0, 2), (2, 2), (1, 1)), "S": ((2, 0), (2, 2), (1, 1)),
       "W": ((0, 0), (2, 0), (1, 1))}


def shaka_valid(h, w, wall, assign, clues):
    """wall: set of black cells; assign: {white cell: 0..4}; clues: {wall cell: k}"""
    for (y, x), k in clues.items():
        if sum(1 for q in neighbors4(y, x, h, w) if assign.get(q, 0) != 0) != k:
            return False
    white = set()
    for (y, x), t in assign.items():
        for part in "NESW":
            if part not in BLACK_PARTS[t]:
                white.add((y, x, part))
    # adjacency of small triangles
    def nbrs(t):
        y, x, part = t
        ring = {"N": "EW", "E": "NS", "S": "EW", "W": "NS"}[part]
        for q in ring:
            yield (y, x, q)
        if part == "N":
            yield (y - 1, x, "S")
        elif part == "S":
            yield (y + 1, x, "N")
        elif part == "W":
            yield (y, x - 1, "E")
        else:
            yield (y, x + 1, "W")

    seen = set()
    for t0 in white:
        if t0 in seen:
            continue
        comp = [t0]
        seen.add(t0)
        stack = [t0]
        while stack:
            t = stack.pop()
            for q in nbrs(t):
                if q in white and q not in seen:
                    seen.add(q)
                    comp.append(q)
                    stack.append(q)
        pts = []
        for (y, x, part) in comp:
            for (dy, dx) in TRI[part]:
                pts.append((2 * y + dy, 2 * x + dx))
        area4 = len(comp)  # in units of 1/4 cell; doubled coordinates: one cell = 4 units of area
        ys = [p[0] for p in pts]
        xs = [p[1] for p in pts]
        axis = (max(ys) - min(ys)) * (max(xs) - min(xs))  # doubled coords: cell area = 4 -> same unit as area4
        us = [p[0] + p[1] for p in pts]
        vs = [p[0] - p[1] for p in pts]
        diag = (max(us) - min(us)) * (max(vs) - min(vs)) / 2
        if area4 != axis and area4 != diag:
            return False
    return True


@functools.lru_cache(maxsize=4096)
def shaka_clue_free(h, w, wall, whites):
    out = []
    for combo in itertools.product(range(5), repeat=len(whites)):
        if shaka_valid(h, w, wall, dict(zip(whites, combo)), {}):
            out.append(combo)
    return out


class Shakashaka(Spec):
    name = "shakashaka"
    max_cells_quick = 6   # white cells (5^k candidates)
    max_cells_thorough = 7

    def instance(self, draw, max_cells):
        h = draw(st.integers(1, 4))
        w = draw(st.integers(1, 4))
        cells = [(y, x) for y in range(h) for x in range(w)]
        wall = {c for c in cells if draw(st.integers(0, 3)) == 0}
        whites = [c for c in cells if c not in wall]
        for c in whites[max_cells:]:
            wall.add(c)
        whites = whites[:max_cells]
        # plant one of the rule-obeying fillings of the clue-free board (enumerated), preferring ones
        # with triangles, so that satisfiable instances with triangles are common
        valid = shaka_clue_free(h, w, frozenset(wall), tuple(whites[:min(len(whites), 5)]))
        with_tri = [v for v in valid if any(v)]
        pool = with_tri if with_tri and draw(st.integers(0, 3)) > 0 else valid
        if pool:
            chosen = pool[draw(st.integers(0, len(pool) - 1))]
        else:
            chosen = tuple(0 for _ in whites[:5])
        plant = dict(zip(whites[:min(len(whites), 5)], chosen))
        prob = [[None] * w for _ in range(h)]
        for (y, x) in wall:
            k = sum(1 for q in neighbors4(y, x, h, w) if plant.get(q, 0) != 0)
            r = draw(st.integers(0, 5))
            prob[y][x] = -1 if r <= 1 else (k if r < 5 else draw(st.integers(0, 4)))
        return dict(h=h, w=w, problem=prob)

    def solve(self, inst):
        from cspuz.puzzle import shakashaka
        ok, a = shakashaka.solve_shakashaka(inst["h"], inst["w"], inst["problem"])
        return ok, flat_sol(a)

    def solutions(self, inst):
        h, w, p = inst["h"], inst["w"], inst["problem"]
        cells = [(y, x) for y in range(h) for x in range(w)]
        wall = {c for c in cells if p[c[0]][c[1]] is not None}
        whites = [c for c in cells if c not in wall]
        clues = {c: p[c[0]][c[1]] for c in wall if p[c[0]][c[1]] >= 0}
        sols = []
        for combo in itertools.product(range(5), repeat=len(whites)):
            assign = dict(zip(whites, combo))
            if shaka_valid(h, w, wall, assign, clues):
                sols.append(tuple(assign.get(c, 0) for c in cells))
        return sols, 0

    def classes(self, inst):
        p = inst["problem"]
        cl = []
        if any(v == 0 for r in p for v in r if v is not None):
            cl.append("zero-clue")
        return cl


SPECS = [Fillomino(), Compass(), Fivecells(), View(), Shakashaka()]
