"""C11 specs for the puzzles whose solution is a binary (or small-valued) marking of cells.
Rules are transcribed from the puzzles' published rules (DESIGN.md Appendix A), independently of
the constraint models in cspuz.puzzle.*."""

import functools
import itertools

from hypothesis import strategies as st

from .base import (Spec, TooBig, components, connected, draw_board, draw_rooms, flat_bools, flat_sol, has_2x2,
                   mask_cells, neighbors4)


def all_cells(h, w):
    return [(y, x) for y in range(h) for x in range(w)]


def border_cell(y, x, h, w):
    return y in (0, h - 1) or x in (0, w - 1)


def planted_mask(draw, h, w, p=(1, 3)):
    return {(y, x) for y in range(h) for x in range(w) if draw(st.integers(0, p[1] - 1)) < p[0]}


class Nurikabe(Spec):
    name = "nurikabe"

    def instance(self, draw, max_cells):
        h, w = draw_board(draw, st, max_cells)
        white = planted_mask(draw, h, w, (1, 2))
        prob = [[0] * w for _ in range(h)]
        for comp in components(white):
            y, x = sorted(comp)[draw(st.integers(0, len(comp) - 1))]
            prob[y][x] = -1 if draw(st.integers(0, 4)) == 0 else len(comp)
        mode = draw(st.integers(0, 3))
        if mode == 0 and h * w > 1:
            y, x = draw(st.integers(0, h - 1)), draw(st.integers(0, w - 1))
            prob[y][x] = draw(st.sampled_from([0, -1, 1, 2, 3]))
        return dict(h=h, w=w, problem=prob)

    def solve(self, inst):
        from cspuz.puzzle import nurikabe
        ok, is_white = nurikabe.solve_nurikabe(inst["h"], inst["w"], inst["problem"])
        return ok, flat_sol(is_white)

    def solutions(self, inst):
        h, w, p = inst["h"], inst["w"], inst["problem"]
        clues = {(y, x): p[y][x] for y in range(h) for x in range(w) if p[y][x] != 0}
        sols, dc = [], 0
        for m in range(1 << (h * w)):
            white = mask_cells(m, h, w)
            if not all(c in white for c in clues):
                continue
            ok = True
            for comp in components(white):
                cl = [c for c in comp if c in clues]
                if len(cl) != 1 or (clues[cl[0]] > 0 and clues[cl[0]] != len(comp)):
                    ok = False
                    break
            if not ok:
                continue
            black = set(all_cells(h, w)) - white
            if not connected(black) or has_2x2(black, h, w):
                continue
            if not black:
                dc += 1
                continue
            sols.append(flat_bools(white, h, w))
        return sols, dc

    def classes(self, inst):
        h, w, p = inst["h"], inst["w"], inst["problem"]
        cl = []
        if any(p[y][x] != 0 and border_cell(y, x, h, w) for y in range(h) for x in range(w)):
            cl.append("clue-on-border")
        if any(v == -1 for r in p for v in r):
            cl.append("unknown-clue")
        return cl


class Akari(Spec):
    name = "akari"

    def instance(self, draw, max_cells):
        h, w = draw_board(draw, st, max_cells + 2)
        wall = planted_mask(draw, h, w, (1, 4))
        whites = [c for c in all_cells(h, w) if c not in wall]
        while len(whites) > max_cells:
            wall.add(whites.pop())
        lights = {c for c in whites if draw(st.integers(0, 3)) == 0}
        prob = [[-2] * w for _ in range(h)]
        for (y, x) in wall:
            k = sum(1 for q in neighbors4(y, x, h, w) if q in lights)
            r = draw(st.integers(0, 5))
            prob[y][x] = -1 if r == 0 else (k if r < 5 else draw(st.integers(0, 4)))
        return dict(h=h, w=w, problem=prob)

    def solve(self, inst):
        from cspuz.puzzle import akari
        ok, a = akari.solve_akari(inst["h"], inst["w"], inst["problem"])
        return ok, flat_sol(a)

    def solutions(self, inst):
        h, w, p = inst["h"], inst["w"], inst["problem"]
        whites = [(y, x) for y in range(h) for x in range(w) if p[y][x] == -2]

        def sees(c):
            y, x = c
            out = []
            for dy, dx in ((-1, 0), (1, 0), (0, -1), (0, 1)):
                yy, xx = y + dy, x + dx
                while 0 <= yy < h and 0 <= xx < w and p[yy][xx] == -2:
                    out.append((yy, xx))
                    yy += dy
                    xx += dx
            return out

        vis = {c: sees(c) for c in whites}
        sols = []
        for m in range(1 << len(whites)):
            lights = {whites[i] for i in range(len(whites)) if (m >> i) & 1}
            if any(q in lights for c in lights for q in vis[c]):
                continue
            if any(c not in lights and not any(q in lights for q in vis[c]) for c in whites):
                continue
            ok = True
            for y in range(h):
                for x in range(w):
                    if p[y][x] >= 0 and sum(1 for q in neighbors4(y, x, h, w) if q in lights) != p[y][x]:
                        ok = False
            if ok:
                sols.append(flat_bools(lights, h, w))
        return sols, 0

    def classes(self, inst):
        h, w, p = inst["h"], inst["w"], inst["problem"]
        cl = []
        if any(p[y][x] >= 0 and border_cell(y, x, h, w) for y in range(h) for x in range(w)):
            cl.append("clue-on-border")
        if any(v == 0 for r in p for v in r):
            cl.append("zero-clue")
        return cl


class Norinori(Spec):
    name = "norinori"

    def instance(self, draw, max_cells):
        h, w = draw_board(draw, st, max_cells)
        if draw(st.integers(0, 3)) == 0 or h * w < 2:
            rooms, _ = draw_rooms(draw, st, h, w, (1, 1, 2))
            return dict(h=h, w=w, rooms=[[list(c) for c in r] for r in rooms])
        # plant non-touching dominoes, then grow one room around each domino (optionally merge two)
        cells = all_cells(h, w)
        black = set()
        dominoes = []
        for (y, x) in draw(st.permutations(cells)):
            for (y2, x2) in ((y, x + 1), (y + 1, x)):
                if y2 < h and x2 < w and draw(st.booleans()):
                    pair = {(y, x), (y2, x2)}
                    around = {q for c in pair for q in neighbors4(c[0], c[1], h, w)} | pair
                    if not (around & black):
                        black |= pair
                        dominoes.append(pair)
                    break
        if not dominoes:
            rooms, _ = draw_rooms(draw, st, h, w, (1, 1, 2))
            return dict(h=h, w=w, rooms=[[list(c) for c in r] for r in rooms])
        owner = {c: i for i, d in enumerate(dominoes) for c in d}
        free = [c for c in cells if c not in owner]
        progress = True
        while free and progress:
            progress = False
            for c in list(free):
                opts = [owner[q] for q in neighbors4(c[0], c[1], h, w) if q in owner]
                if opts:
                    owner[c] = opts[draw(st.integers(0, len(opts) - 1))]
                    free.remove(c)
                    progress = True
        rooms = [[] for _ in dominoes]
        for c in cells:
            rooms[owner[c]].append(c)
        if draw(st.integers(0, 3)) == 0:
            # perturb: split a cell off into its own room (usually makes the instance unsatisfiable)
            r = rooms[draw(st.integers(0, len(rooms) - 1))]
            if len(r) > 2:
                c = r.pop()
                rooms.append([c])
        return dict(h=h, w=w, rooms=[[list(c) for c in r] for r in rooms if r], _planted=[list(c) for c in sorted(black)])

    def solve(self, inst):
        from cspuz.puzzle import norinori
        rooms = [[tuple(c) for c in r] for r in inst["rooms"]]
        ok, a = norinori.solve_norinori(inst["h"], inst["w"], rooms)
        return ok, flat_sol(a)

    def solutions(self, inst):
        h, w = inst["h"], inst["w"]
        rooms = [[tuple(c) for c in r] for r in inst["rooms"]]
        sols = []
        for m in range(1 << (h * w)):
            black = mask_cells(m, h, w)
            if any(sum(1 for c in r if c in black) != 2 for r in rooms):
                continue
            if any(sum(1 for q in neighbors4(y, x, h, w) if q in black) != 1 for (y, x) in black):
                continue
            sols.append(flat_bools(black, h, w))
        return sols, 0


def spanning_rooms(draw, h, w, n_rooms):
    """partition of the board into exactly n_rooms connected rooms (random spanning tree minus
    n_rooms-1 edges) -> id grid"""
    cells = all_cells(h, w)
    edges = []
    for (y, x) in cells:
        if x + 1 < w:
            edges.append(((y, x), (y, x + 1)))
        if y + 1 < h:
            edges.append(((y, x), (y + 1, x)))
    order = draw(st.permutations(list(range(len(edges)))))
    parent = {c: c for c in cells}

    def find(c):
        while parent[c] != c:
            parent[c] = parent[parent[c]]
            c = parent[c]
        return c

    tree = []
    for i in order:
        a, b = edges[i]
        ra, rb = find(a), find(b)
        if ra != rb:
            parent[ra] = rb
            tree.append((a, b))
    keep = tree[: len(tree) - (n_rooms - 1)] if n_rooms > 1 else tree
    parent = {c: c for c in cells}
    for a, b in keep:
        parent[find(a)] = find(b)
    ids = {}
    grid = [[0] * w for _ in range(h)]
    for (y, x) in cells:
        r = find((y, x))
        grid[y][x] = ids.setdefault(r, len(ids))
    return grid


class StarBattle(Spec):
    name = "star_battle"

    def instance(self, draw, max_cells):
        n = draw(st.sampled_from([1, 2, 3, 4, 4, 4, 5] if max_cells < 25 else [4, 5, 5, 6]))
        k = 1 if n < 6 else draw(st.sampled_from([1, 2]))
        return dict(n=n, k=k, blocks=spanning_rooms(draw, n, n, n))

    def solve(self, inst):
        from cspuz.puzzle import star_battle
        ok, a = star_battle.solve_star_battle(inst["n"], inst["blocks"], inst["k"])
        return ok, flat_sol(a)

    def solutions(self, inst):
        n, k, blocks = inst["n"], inst["k"], inst["blocks"]
        rows = list(itertools.combinations(range(n), k))
        sols = []
        for combo in itertools.product(rows, repeat=n):
            stars = {(y, x) for y in range(n) for x in combo[y]}
            if any(sum(1 for (y, x) in stars if x == c) != k for c in range(n)):
                continue
            if any(sum(1 for (y, x) in stars if blocks[y][x] == b) != k for b in range(n)):
                continue
            if any((y + dy, x + dx) in stars for (y, x) in stars for dy in (-1, 0, 1) for dx in (-1, 0, 1)
                   if (dy, dx) != (0, 0)):
                continue
            sols.append(flat_bools(stars, n, n))
        return sols, 0

    def classes(self, inst):
        return ["n=%d" % inst["n"]]


class Yinyang(Spec):
    name = "yinyang"

    def instance(self, draw, max_cells):
        h, w = draw_board(draw, st, max_cells)
        black = planted_mask(draw, h, w, (1, 2))
        prob = [[0] * w for _ in range(h)]
        for (y, x) in all_cells(h, w):
            r = draw(st.integers(0, 5))
            if r <= 1:
                prob[y][x] = 2 if (y, x) in black else 1
            elif r == 2 and draw(st.integers(0, 3)) == 0:
                prob[y][x] = draw(st.sampled_from([1, 2]))
        return dict(h=h, w=w, problem=prob)

    def solve(self, inst):
        from cspuz.puzzle import yinyang
        ok, a = yinyang.solve_yinyang(inst["h"], inst["w"], inst["problem"])
        return ok, flat_sol(a)

    def solutions(self, inst):
        h, w, p = inst["h"], inst["w"], inst["problem"]
        cells = set(all_cells(h, w))
        sols, dc = [], 0
        for m in range(1 << (h * w)):
            black = mask_cells(m, h, w)
            white = cells - black
            if any((p[y][x] == 1 and (y, x) in black) or (p[y][x] == 2 and (y, x) in white) for (y, x) in cells):
                continue
            if not connected(black) or not connected(white):
                continue
            if has_2x2(black, h, w) or has_2x2(white, h, w):
                continue
            if not black or not white:
                dc += 1
                continue
            sols.append(flat_bools(black, h, w))
        return sols, dc

    def classes(self, inst):
        h, w, p = inst["h"], inst["w"], inst["problem"]
        return ["clue-on-border"] if any(p[y][x] and border_cell(y, x, h, w) for y in range(h) for x in range(w)) else []


class Creek(Spec):
    name = "creek"

    def instance(self, draw, max_cells):
        h, w = draw_board(draw, st, max_cells)
        black = planted_mask(draw, h, w, (1, 3))
        prob = [[-1] * (w + 1) for _ in range(h + 1)]
        for y in range(h + 1):
            for x in range(w + 1):
                r = draw(st.integers(0, 5))
                k = sum(1 for yy in (y - 1, y) for xx in (x - 1, x) if (yy, xx) in black)
                if r <= 1:
                    prob[y][x] = k
                elif r == 2 and draw(st.integers(0, 4)) == 0:
                    prob[y][x] = draw(st.integers(0, 4))
        return dict(h=h, w=w, problem=prob)

    def solve(self, inst):
        from cspuz.puzzle import creek
        ok, a = creek.solve_creek(inst["h"], inst["w"], inst["problem"])
        return ok, flat_sol(a)

    def solutions(self, inst):
        h, w, p = inst["h"], inst["w"], inst["problem"]
        cells = set(all_cells(h, w))
        sols, dc = [], 0
        for m in range(1 << (h * w)):
            white = mask_cells(m, h, w)
            black = cells - white
            ok = True
            for y in range(h + 1):
                for x in range(w + 1):
                    if p[y][x] >= 0 and sum(1 for yy in (y - 1, y) for xx in (x - 1, x) if (yy, xx) in black) != p[y][x]:
                        ok = False
                        break
                if not ok:
                    break
            if not ok or not connected(white):
                continue
            if not white:
                dc += 1
                continue
            sols.append(flat_bools(white, h, w))
        return sols, dc

    def classes(self, inst):
        h, w, p = inst["h"], inst["w"], inst["problem"]
        cl = []
        if any(p[y][x] >= 0 and (y in (0, h) or x in (0, w)) for y in range(h + 1) for x in range(w + 1)):
            cl.append("clue-on-border")
        if any(v == 0 for r in p for v in r):
            cl.append("zero-clue")
        return cl


class Gokigen(Spec):
    name = "gokigen"

    def instance(self, draw, max_cells):
        h, w = draw_board(draw, st, max_cells)
        back = planted_mask(draw, h, w, (1, 2))  # True = backslash
        prob = [[-1] * (w + 1) for _ in range(h + 1)]
        for y in range(h + 1):
            for x in range(w + 1):
                r = draw(st.integers(0, 5))
                if r <= 1:
                    prob[y][x] = self.degree(back, h, w, y, x)
                elif r == 2 and draw(st.integers(0, 4)) == 0:
                    prob[y][x] = draw(st.integers(0, 4))
        return dict(h=h, w=w, problem=prob)

    @staticmethod
    def degree(back, h, w, y, x):
        k = 0
        # cell up-left: its "\" ends at (y,x); cell down-right: its "\" starts at (y,x)
        if y > 0 and x > 0 and (y - 1, x - 1) in back:
            k += 1
        if y < h and x < w and (y, x) in back:
            k += 1
        # cell up-right (y-1, x): its "/" joins (y-1, x+1)-(y, x); cell down-left (y, x-1): "/" joins (y, x)-(y+1, x-1)
        if y > 0 and x < w and (y - 1, x) not in back:
            k += 1
        if y < h and x > 0 and (y, x - 1) not in back:
            k += 1
        return k

    def solve(self, inst):
        from cspuz.puzzle import gokigen
        ok, a = gokigen.solve_gokigen(inst["h"], inst["w"], inst["problem"])
        return ok, flat_sol(a)

    def solutions(self, inst):
        h, w, p = inst["h"], inst["w"], inst["problem"]
        sols = []
        for m in range(1 << (h * w)):
            back = mask_cells(m, h, w)
            ok = True
            for y in range(h + 1):
                for x in range(w + 1):
                    if p[y][x] >= 0 and self.degree(back, h, w, y, x) != p[y][x]:
                        ok = False
                        break
                if not ok:
                    break
            if not ok:
                continue
            parent = list(range((h + 1) * (w + 1)))

            def find(a):
                while parent[a] != a:
                    parent[a] = parent[parent[a]]
                    a = parent[a]
                return a

            acyclic = True
            for y in range(h):
                for x in range(w):
                    if (y, x) in back:
                        a, b = y * (w + 1) + x, (y + 1) * (w + 1) + x + 1
                    else:
                        a, b = y * (w + 1) + x + 1, (y + 1) * (w + 1) + x
                    ra, rb = find(a), find(b)
                    if ra == rb:
                        acyclic = False
                        break
                    parent[ra] = rb
                if not acyclic:
                    break
            if acyclic:
                sols.append(flat_bools(back, h, w))
        return sols, 0

    def classes(self, inst):
        h, w, p = inst["h"], inst["w"], inst["problem"]
        cl = []
        if any(p[y][x] >= 0 and (y in (0, h) or x in (0, w)) for y in range(h + 1) for x in range(w + 1)):
            cl.append("clue-on-border")
        if any(v == 0 for r in p for v in r):
            cl.append("zero-clue")
        return cl


def row_convex_rooms(draw, h, w):
    """rooms with at most one horizontal segment per row (so the two published readings of the
    aquarium water level coincide)"""
    rooms = []
    prev = []  # (x0, x1, room index) of the previous row
    for y in range(h):
        segs = []
        x0 = 0
        while x0 < w:
            x1 = min(w, x0 + draw(st.integers(1, 3)))
            segs.append((x0, x1))
            x0 = x1
        cur = []
        used = set()
        for (a, b) in segs:
            cands = [r for (pa, pb, r) in prev if pa < b and a < pb and r not in used]
            if cands and draw(st.integers(0, 2)) > 0:
                r = cands[draw(st.integers(0, len(cands) - 1))]
                used.add(r)
            else:
                r = len(rooms)
                rooms.append([])
            rooms[r] += [(y, x) for x in range(a, b)]
            cur.append((a, b, r))
        prev = cur
    return rooms


class Aquarium(Spec):
    name = "aquarium"

    def instance(self, draw, max_cells):
        h, w = draw_board(draw, st, max_cells)
        rooms = row_convex_rooms(draw, h, w)
        water = set()
        for r in rooms:
            ys = sorted({y for y, _ in r})
            lvl = draw(st.integers(0, len(ys)))
            for y in ys[len(ys) - lvl:]:
                water |= {c for c in r if c[0] == y}
        cr = [sum(1 for x in range(w) if (y, x) in water) if draw(st.integers(0, 2)) else -1 for y in range(h)]
        cc = [sum(1 for y in range(h) if (y, x) in water) if draw(st.integers(0, 2)) else -1 for x in range(w)]
        if draw(st.integers(0, 3)) == 0:
            cr[draw(st.integers(0, h - 1))] = draw(st.integers(0, w))
        return dict(h=h, w=w, rooms=[[list(c) for c in r] for r in rooms], clue_row=cr, clue_col=cc)

    def solve(self, inst):
        from cspuz.puzzle import aquarium
        rooms = [[tuple(c) for c in r] for r in inst["rooms"]]
        ok, a = aquarium.solve_aquarium(inst["h"], inst["w"], rooms, inst["clue_row"], inst["clue_col"])
        return ok, flat_sol(a)

    def solutions(self, inst):
        h, w = inst["h"], inst["w"]
        rooms = [[tuple(c) for c in r] for r in inst["rooms"]]
        per_room = []
        for r in rooms:
            ys = sorted({y for y, _ in r})
            opts = []
            for lvl in range(len(ys) + 1):
                opts.append(frozenset(c for c in r if c[0] in ys[len(ys) - lvl:]))
            per_room.append(opts)
        sols = []
        for combo in itertools.product(*per_room):
            water = set().union(*combo) if combo else set()
            if any(c >= 0 and sum(1 for x in range(w) if (y, x) in water) != c for y, c in enumerate(inst["clue_row"])):
                continue
            if any(c >= 0 and sum(1 for y in range(h) if (y, x) in water) != c for x, c in enumerate(inst["clue_col"])):
                continue
            sols.append(flat_bools(water, h, w))
        return sols, 0

    def classes(self, inst):
        return ["zero-clue"] if 0 in inst["clue_row"] + inst["clue_col"] else []


class Putteria(Spec):
    name = "putteria"

    def instance(self, draw, max_cells):
        h, w = draw_board(draw, st, max_cells)
        if draw(st.integers(0, 3)) == 0 or h * w < 2:
            rooms, _ = draw_rooms(draw, st, h, w, (1, 1, 2))
            return dict(h=h, w=w, rooms=[[list(c) for c in r] for r in rooms])
        # plant non-touching dominoes, then grow one room around each domino (optionally merge two)
        cells = all_cells(h, w)
        black = set()
        dominoes = []
        for (y, x) in draw(st.permutations(cells)):
            for (y2, x2) in ((y, x + 1), (y + 1, x)):
                if y2 < h and x2 < w and draw(st.booleans()):
                    pair = {(y, x), (y2, x2)}
                    around = {q for c in pair for q in neighbors4(c[0], c[1], h, w)} | pair
                    if not (around & black):
                        black |= pair
                        dominoes.append(pair)
                    break
        if not dominoes:
            rooms, _ = draw_rooms(draw, st, h, w, (1, 1, 2))
            return dict(h=h, w=w, rooms=[[list(c) for c in r] for r in rooms])
        owner = {c: i for i, d in enumerate(dominoes) for c in d}
        free = [c for c in cells if c not in owner]
        progress = True
        while free and progress:
            progress = False
            for c in list(free):
                opts = [owner[q] for q in neighbors4(c[0], c[1], h, w) if q in owner]
                if opts:
                    owner[c] = opts[draw(st.integers(0, len(opts) - 1))]
                    free.remove(c)
                    progress = True
        rooms = [[] for _ in dominoes]
        for c in cells:
            rooms[owner[c]].append(c)
        if draw(st.integers(0, 3)) == 0:
            # perturb: split a cell off into its own room (usually makes the instance unsatisfiable)
            r = rooms[draw(st.integers(0, len(rooms) - 1))]
            if len(r) > 2:
                c = r.pop()
                rooms.append([c])
        return dict(h=h, w=w, rooms=[[list(c) for c in r] for r in rooms if r])

    def solve(self, inst):
        from cspuz.puzzle import putteria
        rooms = [[tuple(c) for c in r] for r in inst["rooms"]]
        ok, a = putteria.solve_putteria(inst["h"], inst["w"], rooms)
        return ok, flat_sol(a)

    def solutions(self, inst):
        h, w = inst["h"], inst["w"]
        rooms = [[tuple(c) for c in r] for r in inst["rooms"]]
        sols = []
        for pick in itertools.product(*rooms):
            num = {c: len(r) for c, r in zip(pick, rooms)}
            if any(q in num for (y, x) in num for q in neighbors4(y, x, h, w)):
                continue
            ok = True
            for a, b in itertools.combinations(num, 2):
                if num[a] == num[b] and (a[0] == b[0] or a[1] == b[1]):
                    ok = False
                    break
            if ok:
                sols.append(flat_bools(set(num), h, w))
        return sols, 0


@functools.lru_cache(maxsize=None)
def nurimisaki_clue_free(h, w):
    """all markings obeying the clue-independent rules (whites connected and non-empty, no 2x2
    block of one colour)"""
    cells = set(all_cells(h, w))
    out = []
    for m in range(1 << (h * w)):
        white = mask_cells(m, h, w)
        if white and connected(white) and not has_2x2(white, h, w) and not has_2x2(cells - white, h, w):
            out.append(frozenset(white))
    return out


class Nurimisaki(Spec):
    name = "nurimisaki"

    def instance(self, draw, max_cells):
        h, w = draw_board(draw, st, max_cells)
        valid = nurimisaki_clue_free(h, w)
        if valid and draw(st.integers(0, 4)) > 0:
            white = valid[draw(st.integers(0, len(valid) - 1))]
        else:
            white = planted_mask(draw, h, w, (3, 5))
        prob = [[-1] * w for _ in range(h)]
        for (y, x) in sorted(white):
            nb = [q for q in neighbors4(y, x, h, w) if q in white]
            if len(nb) == 1:
                dy, dx = nb[0][0] - y, nb[0][1] - x
                n = 1
                yy, xx = y + dy, x + dx
                while (yy, xx) in white:
                    n += 1
                    yy += dy
                    xx += dx
                prob[y][x] = n if draw(st.integers(0, 2)) and n >= 2 else 0
        if draw(st.integers(0, 3)) == 0:
            y, x = draw(st.integers(0, h - 1)), draw(st.integers(0, w - 1))
            prob[y][x] = draw(st.sampled_from([-1, 0, 2, 3]))
        return dict(h=h, w=w, problem=prob)

    def solve(self, inst):
        from cspuz.puzzle import nurimisaki
        ok, a = nurimisaki.solve_nurimisaki(inst["h"], inst["w"], inst["problem"])
        return ok, flat_sol(a)

    def solutions(self, inst):
        h, w, p = inst["h"], inst["w"], inst["problem"]
        cells = set(all_cells(h, w))
        sols, dc = [], 0
        for m in range(1 << (h * w)):
            white = mask_cells(m, h, w)
            black = cells - white
            if has_2x2(white, h, w) or has_2x2(black, h, w) or not connected(white):
                continue
            ok = True
            for (y, x) in cells:
                nb = [q for q in neighbors4(y, x, h, w) if q in white]
                cape = (y, x) in white and len(nb) == 1
                if (p[y][x] != -1) != cape:
                    ok = False
                    break
                if p[y][x] > 0:
                    dy, dx = nb[0][0] - y, nb[0][1] - x
                    n = 1
                    yy, xx = y + dy, x + dx
                    while (yy, xx) in white:
                        n += 1
                        yy += dy
                        xx += dx
                    if n != p[y][x]:
                        ok = False
                        break
            if not ok:
                continue
            if not white:
                dc += 1
                continue
            sols.append(flat_bools(white, h, w))
        return sols, dc

    def classes(self, inst):
        h, w, p = inst["h"], inst["w"], inst["problem"]
        cl = []
        if any(p[y][x] != -1 and border_cell(y, x, h, w) for y in range(h) for x in range(w)):
            cl.append("clue-on-border")
        if any(v == 0 for r in p for v in r):
            cl.append("zero-clue")
        return cl


def rect_rooms(draw, h, w):
    """rectangular rooms: horizontal bands cut into rectangles -> list of (y0, x0, y1, x1)"""
    rects = []
    y0 = 0
    while y0 < h:
        y1 = min(h, y0 + draw(st.integers(1, 2)))
        x0 = 0
        while x0 < w:
            x1 = min(w, x0 + draw(st.integers(1, 3)))
            rects.append((y0, x0, y1, x1))
            x0 = x1
        y0 = y1
    return rects


class Heyawake(Spec):
    name = "heyawake"

    def instance(self, draw, max_cells):
        h, w = draw_board(draw, st, max_cells)
        rects = rect_rooms(draw, h, w)
        black = set()
        for c in all_cells(h, w):
            if draw(st.integers(0, 3)) == 0 and not any(q in black for q in neighbors4(c[0], c[1], h, w)):
                black.add(c)
        prob = []
        for (y0, x0, y1, x1) in rects:
            k = sum(1 for y in range(y0, y1) for x in range(x0, x1) if (y, x) in black)
            r = draw(st.integers(0, 5))
            prob.append([y0, x0, y1, x1, -1 if r <= 1 else (k if r < 5 else draw(st.integers(0, 3)))])
        return dict(h=h, w=w, problem=prob, rect_form=draw(st.booleans()))

    def solve(self, inst):
        from cspuz.puzzle import heyawake
        prob = [tuple(r) for r in inst["problem"]]
        if inst["rect_form"]:
            ok, a = heyawake.solve_heyawake(inst["h"], inst["w"], prob)
        else:
            rooms, clues = heyawake.convert_from_rectangular_repr(prob)
            ok, a = heyawake.solve_heyawake(inst["h"], inst["w"], rooms, clues)
        return ok, flat_sol(a)

    def solutions(self, inst):
        h, w = inst["h"], inst["w"]
        rid = [[-1] * w for _ in range(h)]
        for i, (y0, x0, y1, x1, n) in enumerate(inst["problem"]):
            for y in range(y0, y1):
                for x in range(x0, x1):
                    rid[y][x] = i
        cells = set(all_cells(h, w))
        sols, dc = [], 0
        for m in range(1 << (h * w)):
            black = mask_cells(m, h, w)
            if any(q in black for (y, x) in black for q in neighbors4(y, x, h, w)):
                continue
            white = cells - black
            if not connected(white):
                continue
            if any(n >= 0 and sum(1 for y in range(y0, y1) for x in range(x0, x1) if (y, x) in black) != n
                   for (y0, x0, y1, x1, n) in inst["problem"]):
                continue
            ok = True
            # no straight run of white cells through three rooms
            for y in range(h):
                run = []
                for x in range(w + 1):
                    if x < w and (y, x) in white:
                        run.append(rid[y][x])
                    else:
                        if len([k for k, _ in itertools.groupby(run)]) >= 3:
                            ok = False
                        run = []
            for x in range(w):
                run = []
                for y in range(h + 1):
                    if y < h and (y, x) in white:
                        run.append(rid[y][x])
                    else:
                        if len([k for k, _ in itertools.groupby(run)]) >= 3:
                            ok = False
                        run = []
            if not ok:
                continue
            if not white:
                dc += 1
                continue
            sols.append(flat_bools(black, h, w))
        return sols, dc

    def classes(self, inst):
        return ["zero-clue"] if any(r[4] == 0 for r in inst["problem"]) else []


def tetromino_class(cells):
    """canonical form up to rotation / reflection"""
    best = None
    pts = list(cells)
    for flip in (False, True):
        for rot in range(4):
            q = []
            for (y, x) in pts:
                if flip:
                    x = -x
                for _ in range(rot):
                    y, x = x, -y
                q.append((y, x))
            my = min(p[0] for p in q)
            mx = min(p[1] for p in q)
            c = tuple(sorted((p[0] - my, p[1] - mx) for p in q))
            if best is None or c < best:
                best = c
    return best


class Lits(Spec):
    name = "lits"
    quick_shards = 5
    max_cells_quick = 25
    max_cells_thorough = 30

    def instance(self, draw, max_cells):
        h, w = draw_board(draw, st, max_cells, min_side=1, max_side=8)
        if h * w < 4:
            h, w = 2, 4
        cells = all_cells(h, w)
        if draw(st.integers(0, 3)) == 0:
            n_rooms = draw(st.integers(1, max(1, h * w // 4)))
            grid = spanning_rooms(draw, h, w, n_rooms)
            rooms = {}
            for y in range(h):
                for x in range(w):
                    rooms.setdefault(grid[y][x], []).append([y, x])
            return dict(h=h, w=w, rooms=list(rooms.values()))
        # plant disjoint tetrominoes (random growth), then grow one room around each
        owner = {}
        k = 0
        spare = None
        if h >= 3 and w >= 3 and draw(st.integers(0, 2)) == 0:
            # a room that contains a whole plus shape (a T can then sit on a cell whose four neighbours
            # all belong to its own room)
            cy, cx = draw(st.integers(1, h - 2)), draw(st.integers(1, w - 2))
            for c in ((cy, cx), (cy - 1, cx), (cy + 1, cx), (cy, cx - 1), (cy, cx + 1)):
                owner[c] = 0
            k = 1
            # the planted marking of this room: a T centred on (cy, cx), i.e. the plus without one arm
            spare = ((cy - 1, cx), (cy + 1, cx), (cy, cx - 1), (cy, cx + 1))[(cy + cx) % 4]
        for _ in range(draw(st.integers(1, max(1, h * w // draw(st.sampled_from([4, 6, 8])))))):
            free = [c for c in cells if c not in owner]
            if len(free) < 4:
                break
            shape = [free[draw(st.integers(0, len(free) - 1))]]
            while len(shape) < 4:
                front = sorted({q for c in shape for q in neighbors4(c[0], c[1], h, w)
                                if q not in owner and q not in shape})
                if not front:
                    break
                shape.append(front[draw(st.integers(0, len(front) - 1))])
            if len(shape) == 4:
                for c in shape:
                    owner[c] = k
                k += 1
        planted = [list(c) for c in sorted(owner) if c != spare]
        if k == 0:
            return dict(h=h, w=w, rooms=[[list(c) for c in cells]])
        free = [c for c in cells if c not in owner]
        progress = True
        while free and progress:
            progress = False
            for c in list(free):
                opts = [owner[q] for q in neighbors4(c[0], c[1], h, w) if q in owner]
                if opts:
                    owner[c] = opts[draw(st.integers(0, len(opts) - 1))]
                    free.remove(c)
                    progress = True
        rooms = [[] for _ in range(k)]
        for c in cells:
            rooms[owner[c]].append(list(c))
        return dict(h=h, w=w, rooms=rooms, _planted=planted)

    def solve(self, inst):
        from cspuz.puzzle import lits
        rooms = [[tuple(c) for c in r] for r in inst["rooms"]]
        ok, a = lits.solve_lits(inst["h"], inst["w"], rooms)
        return ok, flat_sol(a)

    def solutions(self, inst):
        h, w = inst["h"], inst["w"]
        rooms = [[tuple(c) for c in r] for r in inst["rooms"]]
        per_room = []
        total = 1
        for r in rooms:
            if len(r) > 14:
                raise TooBig()
            opts = [frozenset(s) for s in itertools.combinations(r, 4) if connected(s)]
            per_room.append(opts)
            total *= max(1, len(opts))
            if total > 40000:
                raise TooBig()
        rid = {c: i for i, r in enumerate(rooms) for c in r}
        sols = []
        for combo in itertools.product(*per_room):
            black = set().union(*combo)
            if has_2x2(black, h, w) or not connected(black):
                continue
            shapes = [tetromino_class(s) for s in combo]
            ok = True
            for (y, x) in black:
                for q in neighbors4(y, x, h, w):
                    if q in black and rid[q] != rid[(y, x)] and shapes[rid[q]] == shapes[rid[(y, x)]]:
                        ok = False
            if ok:
                sols.append(flat_bools(black, h, w))
        return sols, 0


SPECS = [Nurikabe(), Akari(), Norinori(), StarBattle(), Yinyang(), Creek(), Gokigen(), Aquarium(), Putteria(),
         Nurimisaki(), Heyawake(), Lits()]
