"""C11 specs for the Latin-style number grids; candidates by an independent backtracking
enumerator over rows (permutations filtered by the column condition)."""

import functools
import itertools

from hypothesis import strategies as st

from .base import Spec, flat_sol


def latin_squares(n, symbols):
    return _latin_cached(n, tuple(symbols))


@functools.lru_cache(maxsize=None)
def _latin_cached(n, symbols):
    return list(_latin_squares(n, list(symbols)))


def _latin_squares(n, symbols):
    """all n x n grids whose rows and columns are permutations of `symbols` (a multiset is
    allowed: rows/columns must be permutations of the multiset)"""
    perms = sorted(set(itertools.permutations(symbols)))
    need = {s: symbols.count(s) for s in set(symbols)}

    def rec(rows):
        if len(rows) == n:
            yield [list(r) for r in rows]
            return
        for p in perms:
            ok = True
            for c in range(n):
                v = p[c]
                if sum(1 for r in rows if r[c] == v) + 1 > need[v]:
                    ok = False
                    break
            if ok:
                yield from rec(rows + [p])

    yield from rec([])


class Sudoku(Spec):
    name = "sudoku"

    def instance(self, draw, max_cells):
        n = 2
        size = 4
        sols = [g for g in latin_squares(size, [1, 2, 3, 4]) if self.boxes_ok(g, n)]
        g = sols[draw(st.integers(0, len(sols) - 1))]
        prob = [[g[y][x] if draw(st.integers(0, 2)) == 0 else 0 for x in range(size)] for y in range(size)]
        if draw(st.integers(0, 3)) == 0:
            prob[draw(st.integers(0, 3))][draw(st.integers(0, 3))] = draw(st.integers(1, 4))
        return dict(n=n, h=size, w=size, problem=prob)

    @staticmethod
    def boxes_ok(g, n):
        size = n * n
        for by in range(n):
            for bx in range(n):
                vals = [g[by * n + dy][bx * n + dx] for dy in range(n) for dx in range(n)]
                if len(set(vals)) != size:
                    return False
        return True

    def solve(self, inst):
        from cspuz.puzzle import sudoku
        ok, a = sudoku.solve_sudoku(inst["problem"], n=inst["n"])
        return ok, flat_sol(a)

    def solutions(self, inst):
        n, p = inst["n"], inst["problem"]
        size = n * n
        sols = []
        for g in latin_squares(size, list(range(1, size + 1))):
            if not self.boxes_ok(g, n):
                continue
            if all(p[y][x] < 1 or p[y][x] == g[y][x] for y in range(size) for x in range(size)):
                sols.append(tuple(v for r in g for v in r))
        return sols, 0


def visible(seq):
    k = 0
    mx = 0
    for v in seq:
        if v > mx:
            k += 1
            mx = v
    return k


class Building(Spec):
    name = "building"

    def instance(self, draw, max_cells):
        n = draw(st.integers(1, 4))
        sq = list(latin_squares(n, list(range(1, n + 1))))
        g = sq[draw(st.integers(0, len(sq) - 1))]
        cols = [[g[y][x] for y in range(n)] for x in range(n)]

        def pick(v):
            r = draw(st.integers(0, 5))
            if r <= 2:
                return v
            if r == 3 and draw(st.integers(0, 2)) == 0:
                return draw(st.integers(1, n))
            return 0

        up = [pick(visible(cols[i])) for i in range(n)]
        dw = [pick(visible(cols[i][::-1])) for i in range(n)]
        lf = [pick(visible(g[i])) for i in range(n)]
        rg = [pick(visible(g[i][::-1])) for i in range(n)]
        return dict(n=n, h=n, w=n, up=up, dw=dw, lf=lf, rg=rg)

    def solve(self, inst):
        from cspuz.puzzle import building
        ok, a = building.solve_building(inst["n"], inst["up"], inst["dw"], inst["lf"], inst["rg"])
        return ok, flat_sol(a)

    def solutions(self, inst):
        n = inst["n"]
        sols = []
        for g in latin_squares(n, list(range(1, n + 1))):
            cols = [[g[y][x] for y in range(n)] for x in range(n)]
            ok = True
            for i in range(n):
                if inst["up"][i] >= 1 and visible(cols[i]) != inst["up"][i]:
                    ok = False
                if inst["dw"][i] >= 1 and visible(cols[i][::-1]) != inst["dw"][i]:
                    ok = False
                if inst["lf"][i] >= 1 and visible(g[i]) != inst["lf"][i]:
                    ok = False
                if inst["rg"][i] >= 1 and visible(g[i][::-1]) != inst["rg"][i]:
                    ok = False
            if ok:
                sols.append(tuple(v for r in g for v in r))
        return sols, 0


def between_sum(seq):
    idx = [i for i, v in enumerate(seq) if v == 0]
    return sum(seq[idx[0] + 1:idx[1]])


class Doppelblock(Spec):
    """values: 0 = black cell (twice per row/column), 1..n-2 once"""
    name = "doppelblock"
    max_cells_thorough = 25

    def instance(self, draw, max_cells):
        n = draw(st.sampled_from([2, 3, 4, 4, 4] if max_cells < 20 else [3, 4, 4, 5]))
        sym = [0, 0] + list(range(1, n - 1))
        sq = latin_squares(n, sym)
        g = sq[draw(st.integers(0, len(sq) - 1))]
        cols = [[g[y][x] for y in range(n)] for x in range(n)]

        def pick(v):
            r = draw(st.integers(0, 5))
            if r <= 2:
                return v
            if r == 3 and draw(st.integers(0, 2)) == 0:
                return draw(st.integers(0, 3))
            return -1

        return dict(n=n, h=n, w=n, clue_row=[pick(between_sum(g[i])) for i in range(n)],
                    clue_col=[pick(between_sum(cols[i])) for i in range(n)])

    def solve(self, inst):
        from cspuz.puzzle import doppelblock
        ok, a = doppelblock.solve_doppelblock(inst["n"], inst["clue_row"], inst["clue_col"])
        return ok, flat_sol(a)

    def solutions(self, inst):
        n = inst["n"]
        sym = [0, 0] + list(range(1, n - 1))
        sols = []
        for g in latin_squares(n, sym):
            ok = True
            for i in range(n):
                if inst["clue_row"][i] >= 0 and between_sum(g[i]) != inst["clue_row"][i]:
                    ok = False
                col = [g[y][i] for y in range(n)]
                if inst["clue_col"][i] >= 0 and between_sum(col) != inst["clue_col"][i]:
                    ok = False
            if ok:
                sols.append(tuple(v for r in g for v in r))
        return sols, 0

    def classes(self, inst):
        return ["zero-clue"] if 0 in inst["clue_row"] + inst["clue_col"] else []


SPECS = [Sudoku(), Building(), Doppelblock()]
