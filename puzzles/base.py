"""Engine for C11: bundled puzzle solvers vs independent rule checkers.

A Spec provides
  instance(draw)    -> plain-data instance (Hypothesis draw function)
  solve(inst)       -> (is_sat, tuple of the answer keys' sol values in a fixed flat order)
  solutions(inst)   -> (list of valid candidate solutions as flat tuples in the same order,
                        number of don't-care candidates met)
  classes(inst)     -> list of class labels (non-square, clue on the border, ...)
The engine compares: is_sat <=> some valid candidate; each answer cell = the common value over
all valid candidates, None when they disagree.  Instances with a don't-care candidate are
skipped and counted.
"""

import functools

from vlib import lattice
from vlib.harness import Failure, repo_frame_sig


class Spec:
    name = "?"
    max_cells_quick = 12
    max_cells_thorough = 15

    def instance(self, draw, max_cells):
        raise NotImplementedError

    def solve(self, inst):
        raise NotImplementedError

    def solutions(self, inst):
        raise NotImplementedError

    def classes(self, inst):
        return []


_CAPTURE = None  # puzzles.large: list that receives the answer variables in flat order


def flat_sol(*arrays):
    out = []
    for a in arrays:
        for v in a:
            out.append(v.sol)
            if _CAPTURE is not None:
                _CAPTURE.append(v)
    return tuple(out)


class TooBig(Exception):
    """the candidate space of this instance is too large to enumerate in this tier"""


def run_instance(spec, inst):
    """-> dict(n_solutions, skipped) ; raises Failure"""
    try:
        sols, n_dc = spec.solutions(inst)
    except TooBig:
        return dict(skipped=True, n=0)
    if n_dc:
        return dict(skipped=True, n=len(sols))
    try:
        import warnings
        with warnings.catch_warnings():
            warnings.simplefilter("ignore")
            is_sat, got = spec.solve(inst)
    except Failure:
        raise
    except Exception as e:
        raise Failure("%s|solver-raises|%s" % (spec.name, repo_frame_sig(e)),
                      observed="%s: %s" % (type(e).__name__, str(e)[:120]))
    want_sat = bool(sols)
    if bool(is_sat) != want_sat:
        raise Failure("%s|%s" % (spec.name, "reports-a-solution-but-none-obeys-the-rules" if is_sat
                                 else "reports-no-solution-but-one-exists"),
                      observed=bool(is_sat), expected=dict(n_valid=len(sols), example=list(sols[0]) if sols else None))
    if want_sat:
        n = len(sols[0])
        if len(got) != n:
            raise Failure("%s|answer-size-differs" % spec.name, observed=len(got), expected=n)
        for i in range(n):
            vals = {s[i] for s in sols}
            if len(vals) == 1:
                want = next(iter(vals))
                if got[i] is None:
                    raise Failure("%s|determined-cell-reported-undecided" % spec.name,
                                  observed=dict(index=i, got=None), expected=want)
                if got[i] != want:
                    raise Failure("%s|decided-cell-has-wrong-value" % spec.name,
                                  observed=dict(index=i, got=got[i]), expected=want)
            elif got[i] is not None:
                raise Failure("%s|undetermined-cell-reported-decided" % spec.name,
                              observed=dict(index=i, got=got[i]), expected=sorted(vals, key=repr))
    return dict(skipped=False, n=len(sols))


# ------------------------------------------------------------------ shared helpers
def neighbors4(y, x, h, w):
    if y > 0:
        yield y - 1, x
    if y + 1 < h:
        yield y + 1, x
    if x > 0:
        yield y, x - 1
    if x + 1 < w:
        yield y, x + 1


def components(cells):
    """4-connected components of a set of (y, x) cells"""
    cells = set(cells)
    out = []
    while cells:
        s = cells.pop()
        comp = {s}
        stack = [s]
        while stack:
            y, x = stack.pop()
            for p in ((y - 1, x), (y + 1, x), (y, x - 1), (y, x + 1)):
                if p in cells:
                    cells.remove(p)
                    comp.add(p)
                    stack.append(p)
        out.append(comp)
    return out


def connected(cells):
    return len(components(cells)) <= 1


def mask_cells(m, h, w):
    return {(y, x) for y in range(h) for x in range(w) if (m >> (y * w + x)) & 1}


def flat_bools(cells, h, w):
    return tuple((y, x) in cells for y in range(h) for x in range(w))


def has_2x2(cells, h, w):
    for y in range(h - 1):
        for x in range(w - 1):
            if (y, x) in cells and (y + 1, x) in cells and (y, x + 1) in cells and (y + 1, x + 1) in cells:
                return True
    return False


@functools.lru_cache(maxsize=None)
def loops(h, w):
    """all candidates for a loop through the centres of an h x w cell board: the empty line and
    every simple cycle; each as (frozenset of edges, visited cells) with edges written
    ("H", y, x) joining cells (y,x)-(y,x+1) and ("V", y, x) joining (y,x)-(y+1,x)"""
    L = lattice.Lattice(h - 1, w - 1)
    n, edges = L.graph()
    out = [(frozenset(), frozenset())]
    for cyc in lattice.simple_cycles(n, edges):
        es = frozenset(L.segments[i] for i in cyc)
        vis = set()
        for s in es:
            a, b = L.endpoints(s)
            vis.add(a)
            vis.add(b)
        out.append((es, frozenset(vis)))
    return out


def loop_flat(es, h, w):
    """flat sol order of BoolGridFrame(h-1, w-1): horizontal h x (w-1) row-major, then vertical"""
    out = [("H", y, x) in es for y in range(h) for x in range(w - 1)]
    out += [("V", y, x) in es for y in range(h - 1) for x in range(w)]
    return tuple(out)


def draw_board(draw, st, max_cells, min_side=1, max_side=6):
    h = draw(st.integers(min_side, max_side))
    w = draw(st.integers(min_side, max(min_side, min(max_side, max_cells // h))))
    if h * w > max_cells:
        h = max(min_side, max_cells // w)
    if draw(st.booleans()):
        h, w = w, h
    return h, w


def draw_rooms(draw, st, h, w, p_new=(1, 2, 3)):
    """random partition into orthogonally connected rooms (random spanning tree minus some edges, so
    every connected partition is reachable) -> (list of rooms as lists of (y, x), id grid).
    p_new biases the number of rooms: larger values cut more tree edges."""
    cells = [(y, x) for y in range(h) for x in range(w)]
    edges = []
    for (y, x) in cells:
        if x + 1 < w:
            edges.append(((y, x), (y, x + 1)))
        if y + 1 < h:
            edges.append(((y, x), (y + 1, x)))
    parent = {c: c for c in cells}

    def find(c):
        while parent[c] != c:
            parent[c] = parent[parent[c]]
            c = parent[c]
        return c

    tree = []
    if edges:
        for i in draw(st.permutations(list(range(len(edges))))):
            a, b = edges[i]
            ra, rb = find(a), find(b)
            if ra != rb:
                parent[ra] = rb
                tree.append((a, b))
    pn = draw(st.sampled_from(list(p_new)))
    hi = min(len(tree), max(1, len(tree) * pn // 4 + 1)) if tree else 0
    n_cut = draw(st.integers(0, hi)) if tree else 0
    parent = {c: c for c in cells}
    for a, b in tree[n_cut:]:
        parent[find(a)] = find(b)
    groups = {}
    for c in cells:
        groups.setdefault(find(c), []).append(c)
    ids = {r: i for i, r in enumerate(groups)}
    rid = [[ids[find((y, x))] for x in range(w)] for y in range(h)]
    return list(groups.values()), rid
