"""C11 specs for the loop puzzles.  Candidates: the empty line (the library's documented
convention) and every simple cycle of the cell-centre lattice, enumerated by DFS (base.loops)."""

from hypothesis import strategies as st

from .base import Spec, draw_board, flat_sol, loop_flat, loops, neighbors4


def loop_frame_sol(frame):
    return flat_sol(frame)  # iteration order of BoolGridFrame: horizontal, then vertical


def pick_loop(draw, h, w):
    ls = loops(h, w)
    return ls[draw(st.integers(0, len(ls) - 1))]


def degree_dirs(es, y, x):
    """which of the four lattice edges at cell (y, x) are on the loop: (up, down, left, right)"""
    return (("V", y - 1, x) in es, ("V", y, x) in es, ("H", y, x - 1) in es, ("H", y, x) in es)


class Slitherlink(Spec):
    """loop on the (h+1) x (w+1) point lattice around the cells"""
    name = "slitherlink"
    max_cells_quick = 9
    max_cells_thorough = 12

    def instance(self, draw, max_cells):
        h, w = draw_board(draw, st, max_cells, max_side=4)
        es, _ = pick_loop(draw, h + 1, w + 1)
        prob = [[-1] * w for _ in range(h)]
        for y in range(h):
            for x in range(w):
                r = draw(st.integers(0, 5))
                if r <= 2:
                    prob[y][x] = self.count(es, y, x)
                elif r == 3 and draw(st.integers(0, 3)) == 0:
                    prob[y][x] = draw(st.integers(0, 4))
        return dict(h=h, w=w, problem=prob)

    @staticmethod
    def count(es, y, x):
        # cell (y,x) has corners (y,x),(y,x+1),(y+1,x),(y+1,x+1) on the point lattice
        return sum([("H", y, x) in es, ("H", y + 1, x) in es, ("V", y, x) in es, ("V", y, x + 1) in es])

    def solve(self, inst):
        from cspuz.puzzle import slitherlink
        ok, fr = slitherlink.solve_slitherlink(inst["h"], inst["w"], inst["problem"])
        return ok, loop_frame_sol(fr)

    def solutions(self, inst):
        h, w, p = inst["h"], inst["w"], inst["problem"]
        sols = []
        for es, _ in loops(h + 1, w + 1):
            if all(p[y][x] < 0 or self.count(es, y, x) == p[y][x] for y in range(h) for x in range(w)):
                sols.append(loop_flat(es, h + 1, w + 1))
        return sols, 0

    def classes(self, inst):
        h, w, p = inst["h"], inst["w"], inst["problem"]
        cl = []
        if any(v == 0 for r in p for v in r):
            cl.append("zero-clue")
        if any(p[y][x] >= 0 and (y in (0, h - 1) or x in (0, w - 1)) for y in range(h) for x in range(w)):
            cl.append("clue-on-border")
        return cl


class Masyu(Spec):
    name = "masyu"
    max_cells_quick = 16
    max_cells_thorough = 20

    def instance(self, draw, max_cells):
        h, w = draw_board(draw, st, max_cells, min_side=1, max_side=5)
        es, vis = pick_loop(draw, h, w)
        prob = [[0] * w for _ in range(h)]
        for y in range(h):
            for x in range(w):
                r = draw(st.integers(0, 7))
                k = self.kind(es, y, x, h, w)
                if r <= 2 and k:
                    prob[y][x] = k
                elif r == 3 and draw(st.integers(0, 2)) == 0:
                    prob[y][x] = draw(st.sampled_from([1, 2]))
        return dict(h=h, w=w, problem=prob)

    @staticmethod
    def straight(es, y, x):
        u, d, l, r = degree_dirs(es, y, x)
        return (u and d) or (l and r)

    @classmethod
    def kind(cls, es, y, x, h, w):
        """0 nothing derivable, 1 valid white pearl position, 2 valid black pearl position"""
        if cls.white_ok(es, y, x):
            return 1
        if cls.black_ok(es, y, x):
            return 2
        return 0

    @classmethod
    def white_ok(cls, es, y, x):
        u, d, l, r = degree_dirs(es, y, x)
        if u and d:
            nb = [(y - 1, x), (y + 1, x)]
        elif l and r:
            nb = [(y, x - 1), (y, x + 1)]
        else:
            return False
        # the line turns in at least one of the two neighbouring cells on the line
        return any(not cls.straight(es, *q) for q in nb)

    @classmethod
    def black_ok(cls, es, y, x):
        u, d, l, r = degree_dirs(es, y, x)
        if sum([u, d, l, r]) != 2 or (u and d) or (l and r):
            return False
        nb = []
        if u:
            nb.append((y - 1, x))
        if d:
            nb.append((y + 1, x))
        if l:
            nb.append((y, x - 1))
        if r:
            nb.append((y, x + 1))
        # straight through both neighbouring cells
        return all(cls.straight(es, *q) for q in nb)

    def solve(self, inst):
        from cspuz.puzzle import masyu
        ok, fr = masyu.solve_masyu(inst["h"], inst["w"], inst["problem"])
        return ok, loop_frame_sol(fr)

    def solutions(self, inst):
        h, w, p = inst["h"], inst["w"], inst["problem"]
        sols = []
        for es, _ in loops(h, w):
            ok = True
            for y in range(h):
                for x in range(w):
                    if p[y][x] == 1 and not self.white_ok(es, y, x):
                        ok = False
                    elif p[y][x] == 2 and not self.black_ok(es, y, x):
                        ok = False
            if ok:
                sols.append(loop_flat(es, h, w))
        return sols, 0

    def classes(self, inst):
        h, w, p = inst["h"], inst["w"], inst["problem"]
        return ["clue-on-border"] if any(p[y][x] and (y in (0, h - 1) or x in (0, w - 1))
                                         for y in range(h) for x in range(w)) else []


class Yajilin(Spec):
    name = "yajilin"
    max_cells_quick = 12
    max_cells_thorough = 16

    def instance(self, draw, max_cells):
        if draw(st.integers(0, 9)) == 0:
            # a long single row: clue numbers with two digits (>= 10 black cells in one direction)
            w = draw(st.integers(21, 24))
            row = ["??" if x % 2 else ".." for x in range(w - 1)]
            k = sum(1 for v in row if v == "..")
            row.append("<%d" % (k if draw(st.integers(0, 3)) else k + draw(st.sampled_from([-9, -1, 1]))))
            prob = [row]
            if draw(st.booleans()):
                prob = [[r.replace("<", "^")] for r in row]  # the same as a single column
                return dict(h=w, w=1, problem=prob)
            return dict(h=1, w=w, problem=prob)
        h, w = draw_board(draw, st, max_cells, max_side=4)
        es, vis = pick_loop(draw, h, w)
        cells = [(y, x) for y in range(h) for x in range(w)]
        free = [c for c in cells if c not in vis]
        black = set()
        clue = set()
        for c in free:
            r = draw(st.integers(0, 2))
            if r == 0 and not any(q in black for q in neighbors4(c[0], c[1], h, w)):
                black.add(c)
            else:
                clue.add(c)
        prob = [[".."] * w for _ in range(h)]
        for (y, x) in clue:
            d = draw(st.sampled_from("^v<>?"))
            if d == "?":
                prob[y][x] = "??"
                continue
            n = self.count(black, d, y, x, h, w)
            if draw(st.integers(0, 5)) == 0:
                n = draw(st.integers(0, 2))
            prob[y][x] = d + str(n)
        return dict(h=h, w=w, problem=prob)

    @staticmethod
    def count(black, d, y, x, h, w):
        if d == "^":
            return sum(1 for yy in range(0, y) if (yy, x) in black)
        if d == "v":
            return sum(1 for yy in range(y + 1, h) if (yy, x) in black)
        if d == "<":
            return sum(1 for xx in range(0, x) if (y, xx) in black)
        return sum(1 for xx in range(x + 1, w) if (y, xx) in black)

    def solve(self, inst):
        from cspuz.puzzle import yajilin
        ok, fr, black = yajilin.solve_yajilin(inst["h"], inst["w"], inst["problem"])
        return ok, loop_frame_sol(fr) + flat_sol(black)

    def solutions(self, inst):
        h, w, p = inst["h"], inst["w"], inst["problem"]
        cells = [(y, x) for y in range(h) for x in range(w)]
        clue = {c for c in cells if p[c[0]][c[1]] != ".."}
        sols = []
        for es, vis in loops(h, w):
            if vis & clue:
                continue
            black = {c for c in cells if c not in vis and c not in clue}  # forced: not clue, not on the loop
            if any(q in black for (y, x) in black for q in neighbors4(y, x, h, w)):
                continue
            ok = True
            for (y, x) in clue:
                v = p[y][x]
                if v != "??" and self.count(black, v[0], y, x, h, w) != int(v[1:]):
                    ok = False
            if ok:
                sols.append(loop_flat(es, h, w) + tuple(c in black for c in cells))
        return sols, 0

    def classes(self, inst):
        h, w, p = inst["h"], inst["w"], inst["problem"]
        cl = []
        if any(p[y][x] not in ("..", "??") and p[y][x][1:] == "0" for y in range(h) for x in range(w)):
            cl.append("zero-clue")
        if any(p[y][x] != ".." and (y in (0, h - 1) or x in (0, w - 1)) for y in range(h) for x in range(w)):
            cl.append("clue-on-border")
        if any(p[0][x][0] == "^" for x in range(w)) or any(p[y][0][0] == "<" for y in range(h)):
            cl.append("arrow-pointing-off-board")
        return cl


class Simpleloop(Spec):
    name = "simpleloop"
    max_cells_quick = 16
    max_cells_thorough = 20

    def instance(self, draw, max_cells):
        h, w = draw_board(draw, st, max_cells, max_side=5)
        es, vis = pick_loop(draw, h, w)
        cells = [(y, x) for y in range(h) for x in range(w)]
        blocked = [[0 if (y, x) in vis else 1 for x in range(w)] for y in range(h)]
        if draw(st.integers(0, 3)) == 0:
            y, x = draw(st.sampled_from(cells))
            blocked[y][x] ^= 1
        pivot = list(draw(st.sampled_from(cells)))
        return dict(h=h, w=w, blocked=blocked, pivot=pivot)

    def solve(self, inst):
        from cspuz.puzzle import simpleloop
        ok, fr = simpleloop.solve_simpleloop(inst["h"], inst["w"], inst["blocked"], tuple(inst["pivot"]))
        return ok, loop_frame_sol(fr)

    def solutions(self, inst):
        h, w, b = inst["h"], inst["w"], inst["blocked"]
        pivot = tuple(inst["pivot"])
        cells = [(y, x) for y in range(h) for x in range(w)]
        others = [c for c in cells if c != pivot and b[c[0]][c[1]] == 0]
        want = set(others)
        if len(others) % 2 == 1:
            want.add(pivot)
        sols = []
        for es, vis in loops(h, w):
            if set(vis) == want:
                sols.append(loop_flat(es, h, w))
        return sols, 0


class Geradeweg(Spec):
    name = "geradeweg"
    max_cells_quick = 16
    max_cells_thorough = 20

    def instance(self, draw, max_cells):
        h, w = draw_board(draw, st, max_cells, max_side=5)
        es, vis = pick_loop(draw, h, w)
        prob = [[0] * w for _ in range(h)]
        for (y, x) in sorted(vis):
            r = draw(st.integers(0, 4))
            if r <= 1:
                hs, vs = self.seglens(es, y, x, h, w)
                lens = [n for n in (hs, vs) if n > 0]
                if len(set(lens)) == 1:
                    prob[y][x] = lens[0]
        if draw(st.integers(0, 3)) == 0:
            y, x = draw(st.integers(0, h - 1)), draw(st.integers(0, w - 1))
            prob[y][x] = draw(st.integers(1, 3))
        return dict(h=h, w=w, problem=prob)

    @staticmethod
    def seglens(es, y, x, h, w):
        """lengths of the horizontal / vertical straight segments of the loop through or ending
        at cell (y, x) (0 if there is none)"""
        hl = 0
        xx = x
        while ("H", y, xx - 1) in es:
            hl += 1
            xx -= 1
        xx = x
        while ("H", y, xx) in es:
            hl += 1
            xx += 1
        vl = 0
        yy = y
        while ("V", yy - 1, x) in es:
            vl += 1
            yy -= 1
        yy = y
        while ("V", yy, x) in es:
            vl += 1
            yy += 1
        return hl, vl

    def solve(self, inst):
        from cspuz.puzzle import geradeweg
        ok, fr = geradeweg.solve_geradeweg(inst["h"], inst["w"], inst["problem"])
        return ok, loop_frame_sol(fr)

    def solutions(self, inst):
        h, w, p = inst["h"], inst["w"], inst["problem"]
        sols = []
        for es, vis in loops(h, w):
            ok = True
            for y in range(h):
                for x in range(w):
                    if p[y][x] >= 1:
                        if (y, x) not in vis:
                            ok = False
                            continue
                        hl, vl = self.seglens(es, y, x, h, w)
                        if any(n > 0 and n != p[y][x] for n in (hl, vl)):
                            ok = False
            if ok:
                sols.append(loop_flat(es, h, w))
        return sols, 0

    def classes(self, inst):
        h, w, p = inst["h"], inst["w"], inst["problem"]
        return ["clue-on-border"] if any(p[y][x] and (y in (0, h - 1) or x in (0, w - 1))
                                         for y in range(h) for x in range(w)) else []


class CastleWall(Spec):
    name = "castle_wall"
    max_cells_quick = 16
    max_cells_thorough = 20

    def instance(self, draw, max_cells):
        if draw(st.integers(0, 7)) == 0:
            # a long 2-row (or 2-column) board: clue numbers with two digits
            w = draw(st.integers(12, 15))
            want = frozenset((y, x) for y in range(2) for x in range(1, w))
            es = next(e for e, v in loops(2, w) if v == want)
            k = self.count(es, ">", 0, 0, 2, w)
            if draw(st.integers(0, 3)) == 0:
                k += draw(st.sampled_from([-9, -1, 1]))
            arrow = [[".."] * w for _ in range(2)]
            inside = [[None] * w for _ in range(2)]
            arrow[0][0] = ">%d" % k
            if draw(st.booleans()):
                arrow[1][0] = "##"
            if draw(st.booleans()):
                # transposed: a 2-column board with a down arrow
                arrow_t = [[arrow[y][x].replace(">", "v") for y in range(2)] for x in range(w)]
                return dict(h=w, w=2, arrow=arrow_t, inside=[[None] * 2 for _ in range(w)])
            return dict(h=2, w=w, arrow=arrow, inside=inside)
        h, w = draw_board(draw, st, max_cells, min_side=2, max_side=5)
        es, vis = pick_loop(draw, h, w)
        cells = [(y, x) for y in range(h) for x in range(w)]
        arrow = [[".."] * w for _ in range(h)]
        inside = [[None] * w for _ in range(h)]
        for (y, x) in cells:
            if (y, x) in vis or draw(st.integers(0, 2)) > 0:
                continue
            d = draw(st.sampled_from("^v<>#"))
            if d == "#":
                arrow[y][x] = "##"  # a wall without an arrow clue (any other text is accepted by the module)
            else:
                n = self.count(es, d, y, x, h, w)
                if draw(st.integers(0, 5)) == 0:
                    n = draw(st.integers(0, 2))
                arrow[y][x] = d + str(n)
            r = draw(st.integers(0, 3))
            if r <= 1:
                inside[y][x] = self.is_inside(es, y, x, w)
            elif r == 2 and draw(st.integers(0, 2)) == 0:
                inside[y][x] = draw(st.booleans())
        return dict(h=h, w=w, arrow=arrow, inside=inside)

    @staticmethod
    def count(es, d, y, x, h, w):
        if d == "^":
            return sum(1 for yy in range(0, y) if ("V", yy, x) in es)
        if d == "v":
            return sum(1 for yy in range(y, h - 1) if ("V", yy, x) in es)
        if d == "<":
            return sum(1 for xx in range(0, x) if ("H", y, xx) in es)
        return sum(1 for xx in range(x, w - 1) if ("H", y, xx) in es)

    @staticmethod
    def is_inside(es, y, x, w):
        """ray parity: a ray from the cell centre going left, shifted slightly up, crosses the
        vertical loop edges V(y-1, xx) for xx < x"""
        return sum(1 for xx in range(0, x) if ("V", y - 1, xx) in es) % 2 == 1

    def solve(self, inst):
        from cspuz.puzzle import castle_wall
        ok, fr = castle_wall.solve_castle_wall(inst["h"], inst["w"], inst["arrow"], inst["inside"])
        return ok, loop_frame_sol(fr)

    def solutions(self, inst):
        h, w, arrow, inside = inst["h"], inst["w"], inst["arrow"], inst["inside"]
        sols = []
        for es, vis in loops(h, w):
            ok = True
            for y in range(h):
                for x in range(w):
                    a = arrow[y][x]
                    if a == "..":
                        continue
                    if (y, x) in vis:
                        ok = False
                        continue
                    if a[0] in "^v<>" and self.count(es, a[0], y, x, h, w) != int(a[1:]):
                        ok = False
                    if inside[y][x] is not None and self.is_inside(es, y, x, w) != inside[y][x]:
                        ok = False
            if ok:
                sols.append(loop_flat(es, h, w))
        return sols, 0

    def classes(self, inst):
        h, w, a = inst["h"], inst["w"], inst["arrow"]
        cl = []
        if any(a[y][x] != ".." and (y in (0, h - 1) or x in (0, w - 1)) for y in range(h) for x in range(w)):
            cl.append("clue-on-border")
        if any(a[y][x][1:] == "0" for y in range(h) for x in range(w) if a[y][x][0] in "^v<>"):
            cl.append("zero-clue")
        return cl


SPECS = [Slitherlink(), Masyu(), Yajilin(), Simpleloop(), Geradeweg(), CastleWall()]
