"""C11, second layer: boards too large to enumerate (25..64 cells).

The small-board layer (base.run_instance) decides instances exhaustively.  Here the oracle is the
per-puzzle rule *checker* alone (a predicate over one grid, written from DESIGN.md Appendix A),
and the instances come in two ways:

  planted    an independently constructed rule-obeying grid S (random simple loop as the boundary
             of a grown face region, shuffled Latin / sudoku pattern, rooms grown around planted
             dominoes ...) from which the clues are derived, then partly hidden;
  bootstrap  a clue-poor instance is given to solve_<puzzle> in model mode (below); a model that
             the checker accepts becomes S, the clues are derived from S and partly hidden.

Model mode: Solver.solve is replaced by Solver.find_answer for the duration of one call, so the
unmodified solve_<puzzle> function posts its constraints and the answer arrays carry one full
model; further models come from blocking clauses over the answer cells.

Checked for every instance:
  soundness     each of the first K models of the posted program is accepted by the rule checker;
  completeness  when a rule-obeying S is known: solve_<puzzle> reports a solution, and
  exactness     no cell is reported decided with a value that some rule-obeying grid (S or an
                accepted model) contradicts.
"""

import itertools

from hypothesis import strategies as st

from . import base, cells as C, latin as LA, loops as LO, parts as P
from .base import components, connected, has_2x2, neighbors4
from vlib.harness import Failure, HarnessError, repo_frame_sig

K_MODELS = 3
CHEAP_NEG = 18
CHEAP = {"masyu", "slitherlink", "yajilin", "geradeweg", "castle_wall", "simpleloop", "akari", "creek", "gokigen",
         "aquarium", "star_battle", "norinori", "lits", "building", "doppelblock", "compass"}
N_NEG = 6   # negative probes per instance (grids next to a rule-obeying one that the checker rejects)
Z3_BUDGET_MS = 20000   # per z3 call
CASE_BUDGET_S = 150    # z3 time per case (a refinement loop can make hundreds of calls)


class SolverBudget(Exception):
    """one z3 call ran into the per-call budget: the case is inconclusive (skipped and counted)"""


class z3_budget:
    """give every z3 check() a time limit for the duration of one case.  cspuz' z3 backend treats
    everything but `unsat` as satisfiable, so an `unknown` must not reach it: it is turned into
    SolverBudget here (in the harness' own view of the z3 module, nothing in the repository changes)."""

    def __init__(self, ms=None):
        self.ms = ms or Z3_BUDGET_MS

    def __enter__(self):
        import z3

        self.z3 = z3
        self.orig = z3.Solver.check
        orig = self.orig

        import time

        spent = [0.0]
        limit = CASE_BUDGET_S

        def check(this, *a):
            t0 = time.monotonic()
            r = orig(this, *a)
            spent[0] += time.monotonic() - t0
            if r == z3.unknown or spent[0] > limit:
                raise SolverBudget()
            return r

        z3.Solver.check = check
        z3.set_param("timeout", self.ms)
        return self

    def __exit__(self, *a):
        self.z3.Solver.check = self.orig
        self.z3.set_param("timeout", 4294967295)
        return False


# ------------------------------------------------------------------ model mode
class ModelMode:
    def __init__(self, fix=None):
        self.fix = fix  # [(variable id, value)]: the answer cells are fixed before the model is sought

    def __enter__(self):
        from cspuz import solver as smod

        self.cls = smod.Solver
        self.orig = self.cls.solve
        self.solvers = []
        self.vars = []
        outer = self

        def solve(this, *a, **kw):
            outer.solvers.append(this)
            if outer.fix is not None:
                from cspuz.expr import BoolVar

                byid = {v.id: v for v in this.variables}
                for vid, val in outer.fix:
                    v = byid[vid]
                    if isinstance(v, BoolVar):
                        this.ensure(v if val else ~v)
                    else:
                        this.ensure(v == val)
            return this.find_answer(*a, **kw)

        self.cls.solve = solve
        base._CAPTURE = self.vars
        return self

    def __exit__(self, *a):
        self.cls.solve = self.orig
        base._CAPTURE = None
        return False


def sut_models(spec, inst, k, planted=None):
    """first k models (flat tuples in the spec's answer order) of what solve_<puzzle> posts; with a
    planted grid also whether that grid itself is a model -> (models, admitted or None)"""
    import warnings
    from cspuz.constraints import fold_or
    from cspuz.expr import BoolVar

    out = []
    with warnings.catch_warnings():
        warnings.simplefilter("ignore")
        with ModelMode() as mm:
            ok, flat = spec.solve(inst)
        if not ok:
            return out, (False if planted is not None else None), [v.id for v in mm.vars]
        if len(mm.solvers) != 1 or len(mm.vars) != len(flat):
            raise HarnessError("model mode: %d solvers, %d captured cells for %d answers"
                               % (len(mm.solvers), len(mm.vars), len(flat)))
        solver = mm.solvers[0]
        out.append(tuple(flat))
        while len(out) < k:
            cur = out[-1]
            lits = []
            for v, val in zip(mm.vars, cur):
                if isinstance(v, BoolVar):
                    lits.append(~v if val else v)
                else:
                    lits.append(v != val)
            solver.ensure(fold_or(lits))
            if not solver.find_answer():
                break
            out.append(tuple(v.sol for v in mm.vars))
        admitted = None
        if planted is not None and len(planted) == len(mm.vars):
            if tuple(planted) in out:
                admitted = True
            else:
                # none of the blocking clauses excludes the planted grid (it differs from every blocked model)
                for v, val in zip(mm.vars, planted):
                    if isinstance(v, BoolVar):
                        solver.ensure(v if val else ~v)
                    else:
                        solver.ensure(v == val)
                admitted = bool(solver.find_answer())
    return out, admitted, [v.id for v in mm.vars]


def is_model(spec, inst, grid, ids):
    """is `grid` (flat, answer order) a model of what solve_<puzzle> posts for `inst`?  A fresh run of the
    unmodified solve function with the answer cells fixed (variable ids are those of an earlier run on
    an instance of the same geometry: the construction is deterministic)"""
    import warnings

    with warnings.catch_warnings():
        warnings.simplefilter("ignore")
        with ModelMode(fix=list(zip(ids, grid))) as mm:
            ok, flat = spec.solve(inst)
    if ok and ([v.id for v in mm.vars] != list(ids) or tuple(flat) != tuple(grid)):
        raise HarnessError("is_model: answer variables moved between two runs of the same geometry")
    return bool(ok)


def real_solve(spec, inst):
    import warnings

    with warnings.catch_warnings():
        warnings.simplefilter("ignore")
        return spec.solve(inst)


def _guard(name, what, fn):
    try:
        return fn()
    except (Failure, HarnessError, SolverBudget):
        raise
    except Exception as e:
        raise Failure("%s|large|solver-raises|%s" % (name, repo_frame_sig(e)),
                      observed="%s: %s (%s)" % (type(e).__name__, str(e)[:120], what))


def perturb_grid(grid, kind, i, j):
    g = list(grid)
    n = len(g)
    if n == 0:
        return None
    i %= n
    j %= n
    if kind == 0:
        if isinstance(g[i], bool):
            g[i] = not g[i]
        elif g[j] != g[i]:
            g[i] = g[j]
        else:
            g[i] = g[i] + 1
    else:
        if g[i] == g[j]:
            return None
        g[i], g[j] = g[j], g[i]
    return tuple(g)


def negative_probes(ls, inst, S, ids, neg):
    """grids / clues next to a rule-obeying grid S that the rule checker REJECTS must not be models of the
    posted constraints.  kind 0/1: S with one cell changed / two cells swapped (same instance);
    kind 2: S itself under an instance with one clue changed so that S contradicts it."""
    name = ls.name
    n = 0
    for (kind, i, j) in neg:
        if kind <= 1:
            g = perturb_grid(S, kind, i, j)
            inst2 = inst
        else:
            g = S
            inst2 = mutate_clue(ls, inst, i, j)
        if g is None or inst2 is None:
            continue
        try:
            verdict = ls.check(inst2, g)
        except Exception:
            continue  # values outside what the checker can read: not a probe
        if verdict is not False:
            continue
        try:
            adm = is_model(ls.spec, inst2, g, ids)
        except (HarnessError, SolverBudget):
            raise
        except Exception as e:
            if kind <= 1:
                raise Failure("%s|large|solver-raises|%s" % (name, repo_frame_sig(e)),
                              observed="%s: %s (negative probe)" % (type(e).__name__, str(e)[:120]))
            continue  # a changed clue may leave the module's input domain: not a probe
        n += 1
        if adm:
            raise Failure("%s|large|rule-violating-grid-is-a-model-of-the-posted-constraints" % name,
                          observed=dict(grid=list(g), changed=("cell" if kind == 0 else "two cells swapped" if kind == 1 else "clue"),
                                        inst=inst2 if kind == 2 else None),
                          expected="the rule checker rejects this grid")
    return n


# which parts of an instance are clues (and may be changed without touching the geometry), and the values
# a clue can take there.  leaf(path, value) says whether that leaf is a clue site.
CLUES = {
    "nurikabe": (["problem"], lambda p, v: True, [0, -1, 1, 2, 3, 4, 5, 6, 7]),
    "akari": (["problem"], lambda p, v: v >= -1, [-1, 0, 1, 2, 3, 4]),
    "yinyang": (["problem"], lambda p, v: True, [0, 1, 2]),
    "creek": (["problem"], lambda p, v: True, [-1, 0, 1, 2, 3, 4]),
    "gokigen": (["problem"], lambda p, v: True, [-1, 0, 1, 2, 3, 4]),
    "aquarium": (["clue_row", "clue_col"], lambda p, v: True, [-1, 0, 1, 2, 3, 4, 5, 6]),
    "nurimisaki": (["problem"], lambda p, v: True, [-1, 0, 2, 3, 4, 5]),
    "heyawake": (["problem"], lambda p, v: p[-1] == 4, [-1, 0, 1, 2, 3, 4, 5]),
    "slitherlink": (["problem"], lambda p, v: True, [-1, 0, 1, 2, 3]),
    "masyu": (["problem"], lambda p, v: True, [0, 1, 2]),
    "yajilin": (["problem"], lambda p, v: v != "..", ["??", "^0", "^1", "v0", "v2", "<0", "<1", ">1", ">3", "<11", ">10"]),
    "geradeweg": (["problem"], lambda p, v: True, [0, 1, 2, 3, 4, 5, 8, 9, 10]),
    "castle_wall": (["arrow", "inside"], lambda p, v: v != "..",
                    ["##", "^0", "^1", "v0", "v2", "<0", "<1", ">1", ">3", ">10", True, False, None]),
    "sudoku": (["problem"], lambda p, v: True, [0, 1, 2, 3, 4, 5, 9, 10, 16]),
    "building": (["up", "dw", "lf", "rg"], lambda p, v: True, [0, 1, 2, 3, 4, 5, 6]),
    "doppelblock": (["clue_row", "clue_col"], lambda p, v: True, [-1, 0, 1, 2, 3, 4, 5, 6, 7, 10]),
    "fillomino": (["problem"], lambda p, v: v != 0, [1, 2, 3, 4, 5, 6, 17]),
    "compass": (["problem"], lambda p, v: p[-1] >= 2, [-1, 0, 1, 2, 3, 4, 5]),
    "fivecells": (["problem"], lambda p, v: v >= -1, [-1, 0, 1, 2, 3, 4]),
    "view": (["problem"], lambda p, v: True, [-1, 0, 1, 2, 3, 4, 5, 10]),
    "shakashaka": (["problem"], lambda p, v: v is not None, [-1, 0, 1, 2, 3, 4]),
}


def mutate_clue(ls, inst, i, j):
    """a deep copy of inst with one clue leaf set to another value, or None"""
    import copy

    spec = CLUES.get(ls.name)
    if spec is None:
        return None
    keys, leaf_ok, values = spec
    inst2 = copy.deepcopy(inst)
    sites = []

    def walk(node, path):
        for k, v in enumerate(node):
            if isinstance(v, list):
                walk(v, path + (k,))
            elif leaf_ok(path + (k,), v):
                sites.append((node, k))

    for key in keys:
        if key in inst2:
            walk(inst2[key], (key,))
    if not sites:
        return None
    node, k = sites[i % len(sites)]
    old = node[k]
    # castle wall: arrow texts and inside flags do not mix
    pool = [v for v in values if v != old and (isinstance(v, str) == isinstance(old, str))]
    if not pool:
        return None
    node[k] = pool[j % len(pool)]
    return inst2


def examine(ls, inst, planted, neg=()):
    """soundness / completeness / exactness of one instance.  -> dict(sat, n_models, valid=[...])"""
    name = ls.name
    if planted is not None and ls.check(inst, planted) is not True:
        raise HarnessError("%s: planted grid rejected by its own checker" % name)
    models, admitted, ids = _guard(name, "model mode", lambda: sut_models(ls.spec, inst, K_MODELS, planted))
    if admitted is False:
        raise Failure("%s|large|rule-obeying-grid-is-not-a-model-of-the-posted-constraints" % name,
                      observed=dict(grid=list(planted)), expected="the planted grid obeys every rule and clue")
    valid = []
    for m in models:
        v = ls.check(inst, m)
        if v is False:
            raise Failure("%s|large|model-violates-the-rules" % name, observed=dict(model=list(m)),
                          expected="every model of the posted constraints obeys the puzzle's rules")
        if v is True:
            valid.append(m)
    if planted is not None and planted not in valid:
        valid.append(planted)
    out = dict(sat=bool(models), n_models=len(models), valid=valid, decided=0, negatives=0)
    if not valid:
        return out
    out["negatives"] = negative_probes(ls, inst, valid[-1], ids, neg)
    is_sat, got = _guard(name, "solve", lambda: real_solve(ls.spec, inst))
    if not is_sat:
        raise Failure("%s|large|reports-no-solution-but-one-exists" % name, observed=False,
                      expected=dict(example=list(valid[0])))
    if len(got) != len(valid[0]):
        raise Failure("%s|large|answer-size-differs" % name, observed=len(got), expected=len(valid[0]))
    for i, g in enumerate(got):
        if g is None:
            continue
        out["decided"] += 1
        for m in valid:
            if m[i] != g:
                raise Failure("%s|large|decided-cell-contradicted-by-a-rule-obeying-grid" % name,
                              observed=dict(index=i, got=g), expected=dict(grid_value=m[i], grid=list(m)))
    return out


def run_large(ls, case):
    """case: dict(puzzle, inst, planted (list or None), plan, pick [, derived])"""
    with z3_budget():
        return _run_large(ls, case)


def _run_large(ls, case):
    inst = case["inst"]
    planted = tuple(case["planted"]) if case.get("planted") is not None else None
    res = dict(phase_a=None, phase_b=None)
    if case.get("derived") is not None:  # replay of a failure found in the second phase
        d = case["derived"]
        res["phase_b"] = examine(ls, d["inst"], tuple(d["planted"]), case.get("neg", ()))
        return res
    a = examine(ls, inst, planted, case.get("neg", ()))
    res["phase_a"] = a
    if planted is None and a["valid"] and ls.reclue is not None:
        S = a["valid"][case["pick"] % len(a["valid"])]
        inst1 = ls.reclue(inst, S, case["plan"])
        if inst1 is not None:
            try:
                res["phase_b"] = examine(ls, inst1, S, case.get("neg", ()))
            except Failure as f:
                f.derived = dict(inst=inst1, planted=list(S))
                raise
    return res


# ------------------------------------------------------------------ shared helpers
def pl(plan, i):
    return plan[i % len(plan)] if plan else 0


def mask(flat, h, w, off=0):
    return {(y, x) for y in range(h) for x in range(w) if flat[off + y * w + x]}


def all_cells(h, w):
    return [(y, x) for y in range(h) for x in range(w)]


def decode_loop(flat, H, W, off=0):
    """edge set of a BoolGridFrame over an H x W vertex lattice given in loop_flat order"""
    es = set()
    k = off
    for y in range(H):
        for x in range(W - 1):
            if flat[k]:
                es.add(("H", y, x))
            k += 1
    for y in range(H - 1):
        for x in range(W):
            if flat[k]:
                es.add(("V", y, x))
            k += 1
    return es


def n_loop_edges(H, W):
    return H * (W - 1) + (H - 1) * W


def loop_vertices(es):
    adj = {}
    for (d, y, x) in es:
        a = (y, x)
        b = (y, x + 1) if d == "H" else (y + 1, x)
        adj.setdefault(a, []).append(b)
        adj.setdefault(b, []).append(a)
    return adj


def single_cycle_or_empty(es):
    if not es:
        return True
    adj = loop_vertices(es)
    if any(len(v) != 2 for v in adj.values()):
        return False
    start = next(iter(adj))
    seen = {start}
    stack = [start]
    while stack:
        a = stack.pop()
        for b in adj[a]:
            if b not in seen:
                seen.add(b)
                stack.append(b)
    return len(seen) == len(adj)


def random_loop(draw, H, W, min_faces=1):
    """a simple cycle on the H x W vertex lattice: boundary of a face region grown one face at a time,
    every step keeping the boundary a single cycle.  -> edge set"""
    if H < 2 or W < 2:
        return set()
    faces = [(fy, fx) for fy in range(H - 1) for fx in range(W - 1)]

    def boundary(F):
        es = set()
        for (fy, fx) in F:
            for e in (("H", fy, fx), ("H", fy + 1, fx), ("V", fy, fx), ("V", fy, fx + 1)):
                if e in es:
                    es.remove(e)
                else:
                    es.add(e)
        return es

    F = {faces[draw(st.integers(0, len(faces) - 1))]}
    target = draw(st.integers(min_faces, max(min_faces, len(faces) * 3 // 4)))
    tries = 0
    while len(F) < target and tries < 4 * len(faces):
        tries += 1
        front = sorted({q for (fy, fx) in F for q in ((fy - 1, fx), (fy + 1, fx), (fy, fx - 1), (fy, fx + 1))
                        if 0 <= q[0] < H - 1 and 0 <= q[1] < W - 1 and q not in F})
        if not front:
            break
        q = front[draw(st.integers(0, len(front) - 1))]
        F.add(q)
        if not single_cycle_or_empty(boundary(F)):
            F.remove(q)
    return boundary(F)


def board(draw, lo=4, hi=7, max_cells=42, thin=(1, 3, 12, 20), big=None):
    """board shapes of the large layer: mostly lo..hi per side; some long thin boards (a side of 1-3,
    the other 12-24: the only boards where runs, sight lines and clue values pass 10 while the solvers
    stay fast) and some big squares (sides 8..big)"""
    mode = draw(st.integers(0, 9))
    if thin and mode <= 2:
        h = draw(st.integers(thin[0], thin[1]))
        w = draw(st.integers(thin[2], thin[3]))
        if draw(st.booleans()):
            h, w = w, h
        return h, w
    if big and mode == 3:
        return draw(st.integers(8, big)), draw(st.integers(8, big))
    h = draw(st.integers(lo, hi))
    w = draw(st.integers(lo, hi))
    while h * w > max_cells:
        if h >= w:
            h -= 1
        else:
            w -= 1
    return h, w


def sparse_cells(draw, h, w, one_in, non_adjacent=False):
    out = set()
    for c in all_cells(h, w):
        if draw(st.integers(0, one_in - 1)) == 0:
            if non_adjacent and any(q in out for q in neighbors4(c[0], c[1], h, w)):
                continue
            out.add(c)
    return out


def planted_from_instance(ls, inst):
    """the small layer's generator plants a marking before it grows rooms around it: keep it as the
    planted grid when the rule checker accepts it (the plus-shaped seed of lits is five cells, not four)"""
    cells = inst.pop("_planted", None)
    if cells is None:
        return dict(inst=inst, planted=None)
    h, w = inst["h"], inst["w"]
    black = {tuple(c) for c in cells}
    flat = tuple((y, x) in black for y in range(h) for x in range(w))
    return dict(inst=inst, planted=list(flat) if ls.check(inst, flat) is True else None)


class LargeSpec:
    name = "?"
    spec = None
    reclue = None
    n_plan = 100
    n_neg = None  # negative probes per instance; default N_NEG, CHEAP_NEG for the puzzles in CHEAP

    def make(self, draw):
        raise NotImplementedError

    def check(self, inst, flat):
        raise NotImplementedError


# ------------------------------------------------------------------ shaded-cell puzzles
class LNurikabe(LargeSpec):
    name = "nurikabe"
    spec = C.Nurikabe()

    def make(self, draw):
        h, w = board(draw)
        if draw(st.integers(0, 2)) > 0 and h >= 2 and w >= 2:
            made = self.plant(draw, h, w)
            if made is not None:
                return made
        prob = [[0] * w for _ in range(h)]
        for (y, x) in sparse_cells(draw, h, w, 6, non_adjacent=True):
            prob[y][x] = -1
        return dict(inst=dict(h=h, w=w, problem=prob), planted=None)

    def plant(self, draw, h, w):
        """independent planting: start from an all-black board and carve islands until no 2x2 black block
        is left.  A cell of a black block becomes white if the sea stays connected and the cell touches
        at most one island (which it then joins)."""
        cells = all_cells(h, w)
        island = {}          # white cell -> island id
        n_islands = 0
        for _ in range(4 * h * w):
            blocks = [(y, x) for y in range(h - 1) for x in range(w - 1)
                      if all((y + dy, x + dx) not in island for dy in (0, 1) for dx in (0, 1))]
            if not blocks:
                break
            y, x = blocks[draw(st.integers(0, len(blocks) - 1))]
            done = False
            for c in draw(st.permutations([(y, x), (y + 1, x), (y, x + 1), (y + 1, x + 1)])):
                touching = {island[q] for q in neighbors4(c[0], c[1], h, w) if q in island}
                if len(touching) > 1:
                    continue
                black = set(cells) - set(island) - {c}
                if not black or not connected(black):
                    continue
                if touching:
                    island[c] = next(iter(touching))
                else:
                    island[c] = n_islands
                    n_islands += 1
                done = True
                break
            if not done:
                return None
        else:
            return None
        white = set(island)
        prob = [[0] * w for _ in range(h)]
        for comp in components(white):
            cs = sorted(comp)
            y, x = cs[draw(st.integers(0, len(cs) - 1))]
            prob[y][x] = len(comp) if draw(st.integers(0, 3)) else -1
        inst = dict(h=h, w=w, problem=prob)
        flat = tuple(c in white for c in cells)
        return dict(inst=inst, planted=list(flat)) if self.check(inst, flat) is True else None

    def check(self, inst, flat):
        h, w, p = inst["h"], inst["w"], inst["problem"]
        white = mask(flat, h, w)
        clues = {(y, x): p[y][x] for y in range(h) for x in range(w) if p[y][x] != 0}
        if any(c not in white for c in clues):
            return False
        for comp in components(white):
            cl = [c for c in comp if c in clues]
            if len(cl) != 1 or (clues[cl[0]] > 0 and clues[cl[0]] != len(comp)):
                return False
        black = set(all_cells(h, w)) - white
        if not connected(black) or has_2x2(black, h, w):
            return False
        return True if black else None

    def reclue(self, inst, flat, plan):
        h, w = inst["h"], inst["w"]
        white = mask(flat, h, w)
        prob = [[0] * w for _ in range(h)]
        for i, comp in enumerate(sorted(components(white), key=lambda c: min(c))):
            cs = sorted(comp)
            y, x = cs[pl(plan, 2 * i) * 7 % len(cs)]
            prob[y][x] = -1 if pl(plan, 2 * i + 1) == 0 else len(comp)
        return dict(h=h, w=w, problem=prob)


class LAkari(LargeSpec):
    name = "akari"
    spec = C.Akari()

    def make(self, draw):
        corridor = draw(st.integers(0, 4)) == 0
        if corridor:
            # a long corridor with at most two walls: sight lines of 16 cells and more
            h, w = draw(st.integers(1, 2)), draw(st.integers(17, 34))
            if draw(st.booleans()):
                h, w = w, h
            prob = [[-2] * w for _ in range(h)]
            for _ in range(draw(st.integers(0, 2))):
                prob[draw(st.integers(0, h - 1))][draw(st.integers(0, w - 1))] = -1
        else:
            h, w = board(draw, 3, 10, 50, thin=(1, 3, 14, 30), big=10)
            prob = [[-2] * w for _ in range(h)]
            for (y, x) in sparse_cells(draw, h, w, draw(st.sampled_from([5, 8, 12]))):
                prob[y][x] = -1
        if not corridor and draw(st.integers(0, 2)) == 0:
            return dict(inst=dict(h=h, w=w, problem=prob), planted=None)
        # independent planting: walk the white cells in a random order and light every cell that is
        # still dark (it is seen by no light, so no two lights see each other; in the end all are lit)
        whites = [c for c in all_cells(h, w) if prob[c[0]][c[1]] == -2]
        lights = set()
        lit = set()
        for (y, x) in draw(st.permutations(whites)):
            if (y, x) in lit:
                continue
            lights.add((y, x))
            lit.add((y, x))
            for dy, dx in ((-1, 0), (1, 0), (0, -1), (0, 1)):
                yy, xx = y + dy, x + dx
                while 0 <= yy < h and 0 <= xx < w and prob[yy][xx] == -2:
                    lit.add((yy, xx))
                    yy += dy
                    xx += dx
        for (y, x) in all_cells(h, w):
            if prob[y][x] != -2 and draw(st.integers(0, 2)) > 0:
                prob[y][x] = sum(1 for q in neighbors4(y, x, h, w) if q in lights)
        return dict(inst=dict(h=h, w=w, problem=prob), planted=[c in lights for c in all_cells(h, w)])

    def check(self, inst, flat):
        h, w, p = inst["h"], inst["w"], inst["problem"]
        lights = mask(flat, h, w)
        if any(p[y][x] != -2 for (y, x) in lights):
            return False
        for (y, x) in all_cells(h, w):
            if p[y][x] != -2:
                if p[y][x] >= 0 and sum(1 for q in neighbors4(y, x, h, w) if q in lights) != p[y][x]:
                    return False
                continue
            seen = 0
            for dy, dx in ((-1, 0), (1, 0), (0, -1), (0, 1)):
                yy, xx = y + dy, x + dx
                while 0 <= yy < h and 0 <= xx < w and p[yy][xx] == -2:
                    if (yy, xx) in lights:
                        seen += 1
                    yy += dy
                    xx += dx
            if (y, x) in lights:
                if seen:
                    return False
            elif not seen:
                return False
        return True

    def reclue(self, inst, flat, plan):
        h, w, p = inst["h"], inst["w"], inst["problem"]
        lights = mask(flat, h, w)
        prob = [row[:] for row in p]
        for i, (y, x) in enumerate(all_cells(h, w)):
            if p[y][x] != -2:
                prob[y][x] = -1 if pl(plan, i) <= 1 else sum(1 for q in neighbors4(y, x, h, w) if q in lights)
        return dict(h=h, w=w, problem=prob)


class LNorinori(LargeSpec):
    name = "norinori"
    spec = C.Norinori()

    def make(self, draw):
        return planted_from_instance(self, self.spec.instance(draw, draw(st.sampled_from([25, 30, 36]))))

    def check(self, inst, flat):
        h, w = inst["h"], inst["w"]
        black = mask(flat, h, w)
        if any(sum(1 for c in r if tuple(c) in black) != 2 for r in inst["rooms"]):
            return False
        return not any(sum(1 for q in neighbors4(y, x, h, w) if q in black) != 1 for (y, x) in black)


class LStarBattle(LargeSpec):
    name = "star_battle"
    spec = C.StarBattle()

    def make(self, draw):
        n = draw(st.sampled_from([5, 6, 6, 7, 8]))
        perm = list(draw(st.permutations(list(range(n)))))
        for _ in range(3 * n):  # repair touching neighbours in consecutive rows by swapping
            bad = [i for i in range(n - 1) if abs(perm[i] - perm[i + 1]) <= 1]
            if not bad:
                break
            i = bad[0]
            j = draw(st.integers(0, n - 1))
            perm[i], perm[j] = perm[j], perm[i]
        if any(abs(perm[i] - perm[i + 1]) <= 1 for i in range(n - 1)):
            return dict(inst=dict(n=n, k=1, blocks=C.spanning_rooms(draw, n, n, n)), planted=None)
        owner = {(y, perm[y]): y for y in range(n)}
        free = [c for c in all_cells(n, n) if c not in owner]
        order = draw(st.permutations(free))
        pending = list(order)
        while pending:
            rest = []
            for c in pending:
                opts = sorted({owner[q] for q in neighbors4(c[0], c[1], n, n) if q in owner})
                if opts:
                    owner[c] = opts[draw(st.integers(0, len(opts) - 1))]
                else:
                    rest.append(c)
            if len(rest) == len(pending):
                break
            pending = rest
        blocks = [[owner[(y, x)] for x in range(n)] for y in range(n)]
        planted = tuple(perm[y] == x for y in range(n) for x in range(n))
        return dict(inst=dict(n=n, k=1, blocks=blocks), planted=list(planted))

    def check(self, inst, flat):
        n, k, blocks = inst["n"], inst["k"], inst["blocks"]
        stars = mask(flat, n, n)
        for i in range(n):
            if sum(1 for (y, x) in stars if y == i) != k or sum(1 for (y, x) in stars if x == i) != k:
                return False
        ids = {blocks[y][x] for y in range(n) for x in range(n)}
        if any(sum(1 for (y, x) in stars if blocks[y][x] == b) != k for b in ids):
            return False
        return not any((y + dy, x + dx) in stars for (y, x) in stars for dy in (-1, 0, 1) for dx in (-1, 0, 1)
                       if (dy, dx) != (0, 0))


class LYinyang(LargeSpec):
    name = "yinyang"
    spec = C.Yinyang()

    def make(self, draw):
        h, w = board(draw, 4, 6, 36)
        if draw(st.integers(0, 2)) > 0 and h >= 3 and w >= 2:
            # independent planting: two interlocking combs (black: top row and the even columns down to the
            # last row but one; white: the rest) obey every rule; then a random walk of single-cell flips
            # that keeps the grid rule-obeying (decided by the checker on the clue-free board)
            cells = all_cells(h, w)
            black = {(0, x) for x in range(w)} | {(y, x) for y in range(1, h - 1) for x in range(0, w, 2)}
            free = dict(h=h, w=w, problem=[[0] * w for _ in range(h)])
            if self.check(free, tuple(c in black for c in cells)) is True:
                for _ in range(draw(st.integers(0, 3 * h * w))):
                    c = cells[draw(st.integers(0, len(cells) - 1))]
                    black ^= {c}
                    if self.check(free, tuple(q in black for q in cells)) is not True:
                        black ^= {c}
                if draw(st.booleans()):
                    black = set(cells) - black      # colours swapped
                prob = [[0] * w for _ in range(h)]
                for (y, x) in cells:
                    if draw(st.integers(0, 3)) == 0:
                        prob[y][x] = 2 if (y, x) in black else 1
                return dict(inst=dict(h=h, w=w, problem=prob), planted=[c in black for c in cells])
        prob = [[0] * w for _ in range(h)]
        for (y, x) in sparse_cells(draw, h, w, 12):
            prob[y][x] = draw(st.sampled_from([1, 2]))
        return dict(inst=dict(h=h, w=w, problem=prob), planted=None)

    def check(self, inst, flat):
        h, w, p = inst["h"], inst["w"], inst["problem"]
        cells = set(all_cells(h, w))
        black = mask(flat, h, w)
        white = cells - black
        if any((p[y][x] == 1 and (y, x) in black) or (p[y][x] == 2 and (y, x) in white) for (y, x) in cells):
            return False
        if not connected(black) or not connected(white) or has_2x2(black, h, w) or has_2x2(white, h, w):
            return False
        return True if black and white else None

    def reclue(self, inst, flat, plan):
        h, w = inst["h"], inst["w"]
        black = mask(flat, h, w)
        prob = [[0] * w for _ in range(h)]
        for i, (y, x) in enumerate(all_cells(h, w)):
            if pl(plan, i) <= 1:
                prob[y][x] = 2 if (y, x) in black else 1
        return dict(h=h, w=w, problem=prob)


class LCreek(LargeSpec):
    name = "creek"
    spec = C.Creek()

    def make(self, draw):
        h, w = board(draw)
        prob = [[-1] * (w + 1) for _ in range(h + 1)]
        if draw(st.integers(0, 2)) == 0:
            for (y, x) in sparse_cells(draw, h + 1, w + 1, 8):
                prob[y][x] = draw(st.integers(0, 2))
            return dict(inst=dict(h=h, w=w, problem=prob), planted=None)
        # independent planting: grow a connected white region cell by cell
        cells = all_cells(h, w)
        white = {cells[draw(st.integers(0, len(cells) - 1))]}
        for _ in range(draw(st.integers(h * w // 3, h * w - 1))):
            front = sorted({q for (y, x) in white for q in neighbors4(y, x, h, w) if q not in white})
            if not front:
                break
            white.add(front[draw(st.integers(0, len(front) - 1))])
        black = set(cells) - white
        for y in range(h + 1):
            for x in range(w + 1):
                if draw(st.integers(0, 2)) == 0:
                    prob[y][x] = self.count(black, y, x)
        return dict(inst=dict(h=h, w=w, problem=prob), planted=[c in white for c in cells])

    @staticmethod
    def count(black, y, x):
        return sum(1 for yy in (y - 1, y) for xx in (x - 1, x) if (yy, xx) in black)

    def check(self, inst, flat):
        h, w, p = inst["h"], inst["w"], inst["problem"]
        white = mask(flat, h, w)
        black = set(all_cells(h, w)) - white
        for y in range(h + 1):
            for x in range(w + 1):
                if p[y][x] >= 0 and self.count(black, y, x) != p[y][x]:
                    return False
        if not connected(white):
            return False
        return True if white else None

    def reclue(self, inst, flat, plan):
        h, w = inst["h"], inst["w"]
        black = set(all_cells(h, w)) - mask(flat, h, w)
        prob = [[self.count(black, y, x) if pl(plan, y * (w + 1) + x) <= 1 else -1 for x in range(w + 1)]
                for y in range(h + 1)]
        return dict(h=h, w=w, problem=prob)


class LGokigen(LargeSpec):
    name = "gokigen"
    spec = C.Gokigen()

    def make(self, draw):
        h, w = board(draw)
        prob = [[-1] * (w + 1) for _ in range(h + 1)]
        if draw(st.integers(0, 2)) == 0:
            return dict(inst=dict(h=h, w=w, problem=prob), planted=None)
        # independent planting: all backslashes are cycle-free; flip cells in a random order whenever the
        # result stays cycle-free (decided by the rule checker on the clue-free board)
        free = dict(h=h, w=w, problem=prob)
        back = set(all_cells(h, w))
        for c in draw(st.permutations(all_cells(h, w))):
            if draw(st.booleans()):
                back.discard(c)
                if not self.check(free, tuple(q in back for q in all_cells(h, w))):
                    back.add(c)
        for y in range(h + 1):
            for x in range(w + 1):
                if draw(st.integers(0, 2)) == 0:
                    prob[y][x] = C.Gokigen.degree(back, h, w, y, x)
        return dict(inst=dict(h=h, w=w, problem=prob), planted=[c in back for c in all_cells(h, w)])

    def check(self, inst, flat):
        h, w, p = inst["h"], inst["w"], inst["problem"]
        back = mask(flat, h, w)
        for y in range(h + 1):
            for x in range(w + 1):
                if p[y][x] >= 0 and C.Gokigen.degree(back, h, w, y, x) != p[y][x]:
                    return False
        parent = list(range((h + 1) * (w + 1)))

        def find(a):
            while parent[a] != a:
                parent[a] = parent[parent[a]]
                a = parent[a]
            return a

        for y in range(h):
            for x in range(w):
                if (y, x) in back:
                    a, b = y * (w + 1) + x, (y + 1) * (w + 1) + x + 1
                else:
                    a, b = y * (w + 1) + x + 1, (y + 1) * (w + 1) + x
                ra, rb = find(a), find(b)
                if ra == rb:
                    return False
                parent[ra] = rb
        return True

    def reclue(self, inst, flat, plan):
        h, w = inst["h"], inst["w"]
        back = mask(flat, h, w)
        prob = [[C.Gokigen.degree(back, h, w, y, x) if pl(plan, y * (w + 1) + x) <= 1 else -1
                 for x in range(w + 1)] for y in range(h + 1)]
        return dict(h=h, w=w, problem=prob)


class LAquarium(LargeSpec):
    name = "aquarium"
    spec = C.Aquarium()

    def make(self, draw):
        h, w = board(draw)
        rooms = C.row_convex_rooms(draw, h, w)
        water = set()
        for r in rooms:
            ys = sorted({y for y, _ in r})
            lvl = draw(st.integers(0, len(ys)))
            for y in ys[len(ys) - lvl:]:
                water |= {c for c in r if c[0] == y}
        cr = [sum(1 for x in range(w) if (y, x) in water) if draw(st.integers(0, 2)) else -1 for y in range(h)]
        cc = [sum(1 for y in range(h) if (y, x) in water) if draw(st.integers(0, 2)) else -1 for x in range(w)]
        inst = dict(h=h, w=w, rooms=[[list(c) for c in r] for r in rooms], clue_row=cr, clue_col=cc)
        return dict(inst=inst, planted=[(y, x) in water for y in range(h) for x in range(w)])

    def check(self, inst, flat):
        h, w = inst["h"], inst["w"]
        water = mask(flat, h, w)
        for r in inst["rooms"]:
            r = [tuple(c) for c in r]
            ys = sorted({y for y, _ in r})
            filled = [y for y in ys if any(c in water for c in r if c[0] == y)]
            for y in ys:
                row = [c for c in r if c[0] == y]
                if any(c in water for c in row) and not all(c in water for c in row):
                    return False
            # water settles: the filled rows are the lowest ones
            if filled != ys[len(ys) - len(filled):]:
                return False
        if any(c >= 0 and sum(1 for x in range(w) if (y, x) in water) != c for y, c in enumerate(inst["clue_row"])):
            return False
        if any(c >= 0 and sum(1 for y in range(h) if (y, x) in water) != c for x, c in enumerate(inst["clue_col"])):
            return False
        return True


class LPutteria(LargeSpec):
    name = "putteria"
    spec = C.Putteria()

    def make(self, draw):
        mode = draw(st.integers(0, 3))
        if mode == 0:
            return dict(inst=self.spec.instance(draw, draw(st.sampled_from([25, 30, 36]))), planted=None)
        if mode == 1:
            # equal slabs: k strips of the same width, so every pair of rooms has the same (large) size
            k = draw(st.integers(2, 4))
            m = draw(st.integers(1, 4))
            h = draw(st.integers(max(3, k), 8)) if m > 1 else draw(st.integers(9, 12))
            w = k * m
            rooms = [[(y, x) for y in range(h) for x in range(i * m, (i + 1) * m)] for i in range(k)]
            if draw(st.booleans()):
                rooms = [[(x, y) for (y, x) in r] for r in rooms]
                h, w = w, h
        else:
            h, w = board(draw, 4, 7, 42)
            rooms, _ = base.draw_rooms(draw, st, h, w, (1,))
            rooms = [list(r) for r in rooms]
        # independent planting: one number cell per room, greedily, in a random room order
        num = {}
        ok = True
        for i in draw(st.permutations(list(range(len(rooms))))):
            cands = [c for c in rooms[i]
                     if not any(q in num for q in neighbors4(c[0], c[1], h, w))
                     and not any(num[q] == len(rooms[i]) and (q[0] == c[0] or q[1] == c[1]) for q in num)]
            if not cands:
                ok = False
                break
            num[cands[draw(st.integers(0, len(cands) - 1))]] = len(rooms[i])
        inst = dict(h=h, w=w, rooms=[[list(c) for c in r] for r in rooms])
        return dict(inst=inst, planted=[c in num for c in all_cells(h, w)] if ok else None)

    def check(self, inst, flat):
        h, w = inst["h"], inst["w"]
        has = mask(flat, h, w)
        num = {}
        for r in inst["rooms"]:
            inside = [tuple(c) for c in r if tuple(c) in has]
            if len(inside) != 1:
                return False
            num[inside[0]] = len(r)
        if any(q in num for (y, x) in num for q in neighbors4(y, x, h, w)):
            return False
        for a, b in itertools.combinations(num, 2):
            if num[a] == num[b] and (a[0] == b[0] or a[1] == b[1]):
                return False
        return True


class LNurimisaki(LargeSpec):
    name = "nurimisaki"
    spec = C.Nurimisaki()

    def make(self, draw):
        h, w = board(draw, 4, 6, 36)
        prob = [[-1] * w for _ in range(h)]
        for (y, x) in sparse_cells(draw, h, w, 7, non_adjacent=True):
            prob[y][x] = 0
        return dict(inst=dict(h=h, w=w, problem=prob), planted=None)

    @staticmethod
    def cape_len(white, y, x, nb):
        dy, dx = nb[0] - y, nb[1] - x
        n = 1
        yy, xx = y + dy, x + dx
        while (yy, xx) in white:
            n += 1
            yy += dy
            xx += dx
        return n

    def check(self, inst, flat):
        h, w, p = inst["h"], inst["w"], inst["problem"]
        cells = set(all_cells(h, w))
        white = mask(flat, h, w)
        black = cells - white
        if has_2x2(white, h, w) or has_2x2(black, h, w) or not connected(white):
            return False
        for (y, x) in cells:
            nb = [q for q in neighbors4(y, x, h, w) if q in white]
            cape = (y, x) in white and len(nb) == 1
            if (p[y][x] != -1) != cape:
                return False
            if p[y][x] > 0 and self.cape_len(white, y, x, nb[0]) != p[y][x]:
                return False
        return True if white else None

    def reclue(self, inst, flat, plan):
        h, w = inst["h"], inst["w"]
        white = mask(flat, h, w)
        prob = [[-1] * w for _ in range(h)]
        for i, (y, x) in enumerate(all_cells(h, w)):
            nb = [q for q in neighbors4(y, x, h, w) if q in white]
            if (y, x) in white and len(nb) == 1:
                n = self.cape_len(white, y, x, nb[0])
                prob[y][x] = n if pl(plan, i) >= 2 and n >= 2 else 0
        return dict(h=h, w=w, problem=prob)


class LHeyawake(LargeSpec):
    name = "heyawake"
    spec = C.Heyawake()

    def make(self, draw):
        h, w = board(draw)
        # roomier rectangles than the small layer's (rows of 1x1 rooms leave no white run at all)
        rects = []
        y0 = 0
        while y0 < h:
            y1 = min(h, y0 + draw(st.integers(1, 3)))
            x0 = 0
            while x0 < w:
                x1 = min(w, x0 + draw(st.integers(2, 4)))
                rects.append((y0, x0, y1, x1))
                x0 = x1
            y0 = y1
        if draw(st.integers(0, 2)) == 0:
            return dict(inst=dict(h=h, w=w, problem=[list(r) + [-1] for r in rects], rect_form=draw(st.booleans())),
                        planted=None)
        # independent planting: blacks first (greedy: never adjacent, whites stay connected), then
        # rectangular rooms cut so that no white run crosses two room borders
        cells = all_cells(h, w)
        black = set()
        if h >= 5 and w >= 5 and draw(st.integers(0, 3)) > 0:
            # the densest legal 3x3 pattern (corners and centre); it must keep clear of the outer wall,
            # otherwise the white cell between two of its corners is cut off
            y0, x0 = draw(st.integers(1, h - 4)), draw(st.integers(1, w - 4))
            black = {(y0, x0), (y0, x0 + 2), (y0 + 1, x0 + 1), (y0 + 2, x0), (y0 + 2, x0 + 2)}
            if not connected(set(cells) - black):
                black = set()
        for c in draw(st.permutations(cells)):
            if draw(st.integers(0, 3)) == 0:
                continue
            if any(q in black for q in neighbors4(c[0], c[1], h, w)):
                continue
            black.add(c)
            if not connected(set(cells) - black):
                black.remove(c)
        white = set(cells) - black

        def runs(line):
            out, run = [], []
            for c in line + [None]:
                if c is not None and c in white:
                    run.append(c)
                else:
                    if run:
                        out.append(run)
                    run = []
            return out

        vruns = [r for x in range(w) for r in runs([(y, x) for y in range(h)])]
        bounds = []
        for y in draw(st.permutations(list(range(1, h)))):
            if draw(st.integers(0, 2)) == 0:
                continue
            trial = bounds + [y]
            if all(sum(1 for b in trial if r[0][0] < b <= r[-1][0]) <= 1 for r in vruns):
                bounds = trial
        bounds = [0] + sorted(bounds) + [h]
        rects = []
        for y0, y1 in zip(bounds, bounds[1:]):
            hruns = [r for y in range(y0, y1) for r in runs([(y, x) for x in range(w)])]
            cuts = []
            for x in draw(st.permutations(list(range(1, w)))):
                if draw(st.integers(0, 2)) == 0:
                    continue
                trial = cuts + [x]
                if all(sum(1 for b in trial if r[0][1] < b <= r[-1][1]) <= 1 for r in hruns):
                    cuts = trial
            cuts = [0] + sorted(cuts) + [w]
            for x0, x1 in zip(cuts, cuts[1:]):
                rects.append((y0, x0, y1, x1))
        prob = []
        for (y0, x0, y1, x1) in rects:
            k = sum(1 for y in range(y0, y1) for x in range(x0, x1) if (y, x) in black)
            prob.append([y0, x0, y1, x1, k if draw(st.integers(0, 2)) else -1])
        inst = dict(h=h, w=w, problem=prob, rect_form=draw(st.booleans()))
        flat = tuple(c in black for c in cells)
        return dict(inst=inst, planted=list(flat) if self.check(inst, flat) is True else None)

    def check(self, inst, flat):
        h, w = inst["h"], inst["w"]
        rid = [[-1] * w for _ in range(h)]
        for i, (y0, x0, y1, x1, n) in enumerate(inst["problem"]):
            for y in range(y0, y1):
                for x in range(x0, x1):
                    rid[y][x] = i
        cells = set(all_cells(h, w))
        black = mask(flat, h, w)
        if any(q in black for (y, x) in black for q in neighbors4(y, x, h, w)):
            return False
        white = cells - black
        if not connected(white):
            return False
        if any(n >= 0 and sum(1 for y in range(y0, y1) for x in range(x0, x1) if (y, x) in black) != n
               for (y0, x0, y1, x1, n) in inst["problem"]):
            return False
        lines = [[(y, x) for x in range(w)] for y in range(h)] + [[(y, x) for y in range(h)] for x in range(w)]
        for line in lines:
            run = []
            for c in line + [None]:
                if c is not None and c in white:
                    run.append(rid[c[0]][c[1]])
                else:
                    if len([k for k, _ in itertools.groupby(run)]) >= 3:
                        return False
                    run = []
        return True if white else None

    def reclue(self, inst, flat, plan):
        h, w = inst["h"], inst["w"]
        black = mask(flat, h, w)
        prob = []
        for i, (y0, x0, y1, x1, n) in enumerate(inst["problem"]):
            k = sum(1 for y in range(y0, y1) for x in range(x0, x1) if (y, x) in black)
            prob.append([y0, x0, y1, x1, k if pl(plan, i) >= 2 else -1])
        return dict(h=h, w=w, problem=prob, rect_form=inst["rect_form"])


class LLits(LargeSpec):
    name = "lits"
    spec = C.Lits()

    def make(self, draw):
        return planted_from_instance(self, self.spec.instance(draw, draw(st.sampled_from([30, 36, 42]))))

    def check(self, inst, flat):
        h, w = inst["h"], inst["w"]
        rooms = [[tuple(c) for c in r] for r in inst["rooms"]]
        black = mask(flat, h, w)
        shapes = []
        for r in rooms:
            s = [c for c in r if c in black]
            if len(s) != 4 or not connected(s):
                return False
            shapes.append(C.tetromino_class(s))
        if has_2x2(black, h, w) or not connected(black):
            return False
        rid = {c: i for i, r in enumerate(rooms) for c in r}
        for (y, x) in black:
            for q in neighbors4(y, x, h, w):
                if q in black and rid[q] != rid[(y, x)] and shapes[rid[q]] == shapes[rid[(y, x)]]:
                    return False
        return True


# ------------------------------------------------------------------ loop puzzles
class LSlitherlink(LargeSpec):
    name = "slitherlink"
    spec = LO.Slitherlink()

    def make(self, draw):
        h, w = board(draw, 4, 7, 42)
        es = random_loop(draw, h + 1, w + 1)
        prob = [[LO.Slitherlink.count(es, y, x) if draw(st.integers(0, 5)) <= 2 else -1 for x in range(w)]
                for y in range(h)]
        return dict(inst=dict(h=h, w=w, problem=prob), planted=list(base.loop_flat(es, h + 1, w + 1)))

    def check(self, inst, flat):
        h, w, p = inst["h"], inst["w"], inst["problem"]
        es = decode_loop(flat, h + 1, w + 1)
        if not single_cycle_or_empty(es):
            return False
        return all(p[y][x] < 0 or LO.Slitherlink.count(es, y, x) == p[y][x] for y in range(h) for x in range(w))


class LMasyu(LargeSpec):
    name = "masyu"
    spec = LO.Masyu()

    def make(self, draw):
        h, w = board(draw, 4, 7, 42)
        es = random_loop(draw, h, w, min_faces=2)
        prob = [[0] * w for _ in range(h)]
        for y in range(h):
            for x in range(w):
                k = LO.Masyu.kind(es, y, x, h, w)
                if k and draw(st.integers(0, 2)) <= 1:
                    prob[y][x] = k
        return dict(inst=dict(h=h, w=w, problem=prob), planted=list(base.loop_flat(es, h, w)))

    def check(self, inst, flat):
        h, w, p = inst["h"], inst["w"], inst["problem"]
        es = decode_loop(flat, h, w)
        if not single_cycle_or_empty(es):
            return False
        for y in range(h):
            for x in range(w):
                if p[y][x] == 1 and not LO.Masyu.white_ok(es, y, x):
                    return False
                if p[y][x] == 2 and not LO.Masyu.black_ok(es, y, x):
                    return False
        return True


class LYajilin(LargeSpec):
    name = "yajilin"
    spec = LO.Yajilin()

    def make(self, draw):
        h, w = board(draw, 4, 6, 36)
        es = random_loop(draw, h, w, min_faces=2)
        vis = set(loop_vertices(es))
        free = [c for c in all_cells(h, w) if c not in vis]
        black, clue = set(), set()
        for c in free:
            if draw(st.integers(0, 2)) == 0 and not any(q in black for q in neighbors4(c[0], c[1], h, w)):
                black.add(c)
            else:
                clue.add(c)
        prob = [[".."] * w for _ in range(h)]
        for (y, x) in sorted(clue):
            d = draw(st.sampled_from("^v<>?"))
            prob[y][x] = "??" if d == "?" else d + str(LO.Yajilin.count(black, d, y, x, h, w))
        planted = list(base.loop_flat(es, h, w)) + [c in black for c in all_cells(h, w)]
        return dict(inst=dict(h=h, w=w, problem=prob), planted=planted)

    def check(self, inst, flat):
        h, w, p = inst["h"], inst["w"], inst["problem"]
        ne = n_loop_edges(h, w)
        es = decode_loop(flat, h, w)
        if not single_cycle_or_empty(es):
            return False
        vis = set(loop_vertices(es))
        cells = all_cells(h, w)
        clue = {c for c in cells if p[c[0]][c[1]] != ".."}
        if vis & clue:
            return False
        black = mask(flat, h, w, ne)
        if black != {c for c in cells if c not in vis and c not in clue}:
            return False
        if any(q in black for (y, x) in black for q in neighbors4(y, x, h, w)):
            return False
        for (y, x) in clue:
            v = p[y][x]
            if v != "??" and LO.Yajilin.count(black, v[0], y, x, h, w) != int(v[1:]):
                return False
        return True


class LSimpleloop(LargeSpec):
    name = "simpleloop"
    spec = LO.Simpleloop()

    def make(self, draw):
        h, w = board(draw, 4, 7, 42)
        es = random_loop(draw, h, w, min_faces=max(2, (h - 1) * (w - 1) // 2))
        vis = set(loop_vertices(es))
        cells = all_cells(h, w)
        blocked = [[0 if (y, x) in vis else 1 for x in range(w)] for y in range(h)]
        pivot = list(cells[draw(st.integers(0, len(cells) - 1))])
        inst = dict(h=h, w=w, blocked=blocked, pivot=pivot)
        flat = base.loop_flat(es, h, w)
        return dict(inst=inst, planted=list(flat) if self.check(inst, flat) else None)

    def check(self, inst, flat):
        h, w, b = inst["h"], inst["w"], inst["blocked"]
        es = decode_loop(flat, h, w)
        if not single_cycle_or_empty(es):
            return False
        pivot = tuple(inst["pivot"])
        others = [c for c in all_cells(h, w) if c != pivot and b[c[0]][c[1]] == 0]
        want = set(others)
        if len(others) % 2 == 1:
            want.add(pivot)
        return set(loop_vertices(es)) == want


class LGeradeweg(LargeSpec):
    name = "geradeweg"
    spec = LO.Geradeweg()

    def make(self, draw):
        h, w = board(draw, 4, 7, 42)
        es = random_loop(draw, h, w, min_faces=2)
        prob = [[0] * w for _ in range(h)]
        for (y, x) in sorted(loop_vertices(es)):
            if draw(st.integers(0, 4)) <= 1:
                lens = [n for n in LO.Geradeweg.seglens(es, y, x, h, w) if n > 0]
                if len(set(lens)) == 1:
                    prob[y][x] = lens[0]
        return dict(inst=dict(h=h, w=w, problem=prob), planted=list(base.loop_flat(es, h, w)))

    def check(self, inst, flat):
        h, w, p = inst["h"], inst["w"], inst["problem"]
        es = decode_loop(flat, h, w)
        if not single_cycle_or_empty(es):
            return False
        vis = set(loop_vertices(es))
        for y in range(h):
            for x in range(w):
                if p[y][x] >= 1:
                    if (y, x) not in vis:
                        return False
                    if any(n > 0 and n != p[y][x] for n in LO.Geradeweg.seglens(es, y, x, h, w)):
                        return False
        return True


class LCastleWall(LargeSpec):
    name = "castle_wall"
    spec = LO.CastleWall()

    def make(self, draw):
        h, w = board(draw, 4, 7, 42)
        es = random_loop(draw, h, w, min_faces=2)
        vis = set(loop_vertices(es))
        arrow = [[".."] * w for _ in range(h)]
        inside = [[None] * w for _ in range(h)]
        for (y, x) in all_cells(h, w):
            if (y, x) in vis or draw(st.integers(0, 2)) > 0:
                continue
            d = draw(st.sampled_from("^v<>#"))
            arrow[y][x] = "##" if d == "#" else d + str(LO.CastleWall.count(es, d, y, x, h, w))
            if draw(st.booleans()):
                inside[y][x] = LO.CastleWall.is_inside(es, y, x, w)
        return dict(inst=dict(h=h, w=w, arrow=arrow, inside=inside), planted=list(base.loop_flat(es, h, w)))

    def check(self, inst, flat):
        h, w, arrow, inside = inst["h"], inst["w"], inst["arrow"], inst["inside"]
        es = decode_loop(flat, h, w)
        if not single_cycle_or_empty(es):
            return False
        vis = set(loop_vertices(es))
        for y in range(h):
            for x in range(w):
                a = arrow[y][x]
                if a == "..":
                    continue
                if (y, x) in vis:
                    return False
                if a[0] in "^v<>" and LO.CastleWall.count(es, a[0], y, x, h, w) != int(a[1:]):
                    return False
                if inside[y][x] is not None and LO.CastleWall.is_inside(es, y, x, w) != inside[y][x]:
                    return False
        return True


# ------------------------------------------------------------------ number grids
def shuffled_latin(draw, n):
    rows = list(draw(st.permutations(list(range(n)))))
    cols = list(draw(st.permutations(list(range(n)))))
    sym = list(draw(st.permutations(list(range(1, n + 1)))))
    return [[sym[(rows[y] + cols[x]) % n] for x in range(n)] for y in range(n)]


class LSudoku(LargeSpec):
    name = "sudoku"
    spec = LA.Sudoku()

    def make(self, draw):
        n = 4 if draw(st.integers(0, 3)) == 0 else 3
        size = n * n

        def band_perm():
            bands = list(draw(st.permutations(list(range(n)))))
            return [b * n + i for b in bands for i in draw(st.permutations(list(range(n))))]

        rows, cols = band_perm(), band_perm()
        sym = list(draw(st.permutations(list(range(1, size + 1)))))
        g = [[sym[(n * (rows[y] % n) + rows[y] // n + cols[x]) % size] for x in range(size)] for y in range(size)]
        keep = 2 if n == 3 else 9   # 16x16 grids are given almost complete (z3 is slow on open ones)
        prob = [[g[y][x] if draw(st.integers(0, 9)) <= keep else 0 for x in range(size)] for y in range(size)]
        return dict(inst=dict(n=n, h=size, w=size, problem=prob), planted=[v for r in g for v in r])

    def check(self, inst, flat):
        n, p = inst["n"], inst["problem"]
        size = n * n
        g = [list(flat[y * size:(y + 1) * size]) for y in range(size)]
        full = set(range(1, size + 1))
        if any(set(r) != full for r in g) or any({g[y][x] for y in range(size)} != full for x in range(size)):
            return False
        if not LA.Sudoku.boxes_ok(g, n):
            return False
        return all(p[y][x] < 1 or p[y][x] == g[y][x] for y in range(size) for x in range(size))


class LBuilding(LargeSpec):
    name = "building"
    spec = LA.Building()

    def make(self, draw):
        n = draw(st.sampled_from([5, 5, 6]))
        g = shuffled_latin(draw, n)
        cols = [[g[y][x] for y in range(n)] for x in range(n)]

        def pick(v):
            return v if draw(st.integers(0, 2)) else 0

        inst = dict(n=n, h=n, w=n, up=[pick(LA.visible(cols[i])) for i in range(n)],
                    dw=[pick(LA.visible(cols[i][::-1])) for i in range(n)],
                    lf=[pick(LA.visible(g[i])) for i in range(n)], rg=[pick(LA.visible(g[i][::-1])) for i in range(n)])
        return dict(inst=inst, planted=[v for r in g for v in r])

    def check(self, inst, flat):
        n = inst["n"]
        g = [list(flat[y * n:(y + 1) * n]) for y in range(n)]
        full = set(range(1, n + 1))
        cols = [[g[y][x] for y in range(n)] for x in range(n)]
        if any(set(r) != full for r in g) or any(set(c) != full for c in cols):
            return False
        for i in range(n):
            if inst["up"][i] >= 1 and LA.visible(cols[i]) != inst["up"][i]:
                return False
            if inst["dw"][i] >= 1 and LA.visible(cols[i][::-1]) != inst["dw"][i]:
                return False
            if inst["lf"][i] >= 1 and LA.visible(g[i]) != inst["lf"][i]:
                return False
            if inst["rg"][i] >= 1 and LA.visible(g[i][::-1]) != inst["rg"][i]:
                return False
        return True


class LDoppelblock(LargeSpec):
    name = "doppelblock"
    spec = LA.Doppelblock()

    def make(self, draw):
        n = draw(st.sampled_from([5, 6, 6]))
        g = [[0 if v >= n - 1 else v for v in r] for r in shuffled_latin(draw, n)]
        cols = [[g[y][x] for y in range(n)] for x in range(n)]

        def pick(v):
            return v if draw(st.integers(0, 2)) else -1

        inst = dict(n=n, h=n, w=n, clue_row=[pick(LA.between_sum(g[i])) for i in range(n)],
                    clue_col=[pick(LA.between_sum(cols[i])) for i in range(n)])
        return dict(inst=inst, planted=[v for r in g for v in r])

    def check(self, inst, flat):
        n = inst["n"]
        g = [list(flat[y * n:(y + 1) * n]) for y in range(n)]
        want = sorted([0, 0] + list(range(1, n - 1)))
        cols = [[g[y][x] for y in range(n)] for x in range(n)]
        if any(sorted(r) != want for r in g) or any(sorted(c) != want for c in cols):
            return False
        for i in range(n):
            if inst["clue_row"][i] >= 0 and LA.between_sum(g[i]) != inst["clue_row"][i]:
                return False
            if inst["clue_col"][i] >= 0 and LA.between_sum(cols[i]) != inst["clue_col"][i]:
                return False
        return True


# ------------------------------------------------------------------ partitions and the rest
class LFillomino(LargeSpec):
    name = "fillomino"
    spec = P.Fillomino()

    def make(self, draw):
        if draw(st.booleans()):
            # independent planting: a partition into few (hence large) rooms, kept when the checker accepts it
            # (touching rooms of equal size are the usual reason it does not); clues almost everywhere
            h, w = board(draw, 4, 6, 30, thin=(1, 2, 12, 18))
            rooms, _ = base.draw_rooms(draw, st, h, w, (1,))
            size = {c: len(r) for r in rooms for c in r}
            flat = tuple(size[c] for c in all_cells(h, w))
            # all cells given, except up to two cells of small regions (z3 needs many minutes as soon as one
            # cell of a large region is open)
            hide = {draw(st.integers(0, h * w - 1)) for _ in range(draw(st.integers(0, 2)))}
            prob = [[0 if y * w + x in hide and size[(y, x)] <= 4 else size[(y, x)] for x in range(w)]
                    for y in range(h)]
            inst = dict(h=h, w=w, problem=prob, checkered=False)
            if self.check(inst, flat) is True:
                return dict(inst=inst, planted=list(flat))
        h, w = board(draw, 4, 5, 20, thin=None)
        prob = [[0] * w for _ in range(h)]
        for (y, x) in sparse_cells(draw, h, w, 8):
            prob[y][x] = draw(st.integers(1, 5))
        return dict(inst=dict(h=h, w=w, problem=prob, checkered=draw(st.integers(0, 3)) == 0), planted=None)

    def check(self, inst, flat):
        h, w, p = inst["h"], inst["w"], inst["problem"]
        size = {(y, x): flat[y * w + x] for y in range(h) for x in range(w)}
        # blocks = components of equal numbers; each block's size must be its number (this also keeps
        # equal-sized blocks from touching)
        seen = set()
        bid = {}
        blocks = []
        for c in all_cells(h, w):
            if c in seen:
                continue
            comp = {c}
            stack = [c]
            while stack:
                y, x = stack.pop()
                for q in neighbors4(y, x, h, w):
                    if q not in comp and size[q] == size[c]:
                        comp.add(q)
                        stack.append(q)
            seen |= comp
            if len(comp) != size[c]:
                return False
            for q in comp:
                bid[q] = len(blocks)
            blocks.append(comp)
        if any(p[y][x] >= 1 and size[(y, x)] != p[y][x] for (y, x) in size):
            return False
        if inst["checkered"]:
            adj = {i: set() for i in range(len(blocks))}
            for (y, x) in size:
                for q in neighbors4(y, x, h, w):
                    if bid[q] != bid[(y, x)]:
                        adj[bid[(y, x)]].add(bid[q])
            colour = {}
            for s in adj:
                if s in colour:
                    continue
                colour[s] = 0
                stack = [s]
                while stack:
                    a = stack.pop()
                    for v in adj[a]:
                        if v not in colour:
                            colour[v] = 1 - colour[a]
                            stack.append(v)
                        elif colour[v] == colour[a]:
                            return False
        return True

    def reclue(self, inst, flat, plan):
        h, w = inst["h"], inst["w"]
        prob = [[flat[y * w + x] if pl(plan, y * w + x) <= 1 else 0 for x in range(w)] for y in range(h)]
        return dict(h=h, w=w, problem=prob, checkered=inst["checkered"])


class LCompass(LargeSpec):
    name = "compass"
    spec = P.Compass()

    def make(self, draw):
        h, w = board(draw, 4, 6, 30)
        rooms, _ = base.draw_rooms(draw, st, h, w, (1, 1, 1, 2))
        rooms = [list(r) for r in rooms]
        while len(rooms) > 6:
            r = rooms.pop()
            for k, other in enumerate(rooms):
                if any(q in other for (y, x) in r for q in neighbors4(y, x, h, w)):
                    rooms[k] = other + r
                    break
            else:
                rooms.append(r)
                break
        prob = []
        for r in rooms:
            y, x = r[draw(st.integers(0, len(r) - 1))]
            vals = [sum(1 for c in r if c[0] < y), sum(1 for c in r if c[1] < x),
                    sum(1 for c in r if c[0] > y), sum(1 for c in r if c[1] > x)]
            prob.append([y, x] + [v if draw(st.integers(0, 2)) else -1 for v in vals])
        rid = {c: i for i, r in enumerate(rooms) for c in r}
        return dict(inst=dict(h=h, w=w, problem=prob), planted=[rid[c] for c in all_cells(h, w)])

    def check(self, inst, flat):
        h, w, prob = inst["h"], inst["w"], inst["problem"]
        cells = all_cells(h, w)
        lab = dict(zip(cells, flat))
        if any(not (0 <= v < len(prob)) for v in flat):
            return False
        for i, (y, x, u, l, d, r) in enumerate(prob):
            if lab[(y, x)] != i:
                return False
            reg = {c for c in cells if lab[c] == i}
            if not connected(reg):
                return False
            if u >= 0 and sum(1 for c in reg if c[0] < y) != u:
                return False
            if l >= 0 and sum(1 for c in reg if c[1] < x) != l:
                return False
            if d >= 0 and sum(1 for c in reg if c[0] > y) != d:
                return False
            if r >= 0 and sum(1 for c in reg if c[1] > x) != r:
                return False
        return True


class LFivecells(LargeSpec):
    name = "fivecells"
    spec = P.Fivecells()

    def make(self, draw):
        h, w = draw(st.sampled_from([(4, 5), (5, 4), (5, 5), (5, 5), (3, 10), (10, 3)]))
        prob = [[-1] * w for _ in range(h)]
        return dict(inst=dict(h=h, w=w, problem=prob), planted=None)

    @staticmethod
    def edges(inst):
        h, w, p = inst["h"], inst["w"], inst["problem"]
        usable = [(y, x) for y in range(h) for x in range(w) if p[y][x] >= -1]
        us = set(usable)
        edges = []
        for (y, x) in usable:
            if (y + 1, x) in us:
                edges.append(((y, x), (y + 1, x)))
            if (y, x + 1) in us:
                edges.append(((y, x), (y, x + 1)))
        return usable, edges

    def blocks(self, inst, flat):
        """-> bid map when the border marking is the border set of a partition, else None"""
        usable, edges = self.edges(inst)
        if len(flat) != len(edges):
            return None
        parent = {c: c for c in usable}

        def find(c):
            while parent[c] != c:
                parent[c] = parent[parent[c]]
                c = parent[c]
            return c

        for (a, b), border in zip(edges, flat):
            if not border:
                parent[find(a)] = find(b)
        bid = {c: find(c) for c in usable}
        # a marked border must separate two different blocks
        if any(border and bid[a] == bid[b] for (a, b), border in zip(edges, flat)):
            return None
        return bid

    def check(self, inst, flat):
        p = inst["problem"]
        bid = self.blocks(inst, flat)
        if bid is None:
            return False
        sizes = {}
        for c, b in bid.items():
            sizes[b] = sizes.get(b, 0) + 1
        if any(v != 5 for v in sizes.values()):
            return False
        return all(p[y][x] < 0 or P.border_count(bid, y, x) == p[y][x] for (y, x) in bid)

    def reclue(self, inst, flat, plan):
        h, w = inst["h"], inst["w"]
        bid = self.blocks(inst, flat)
        prob = [[P.border_count(bid, y, x) if pl(plan, y * w + x) <= 1 else -1 for x in range(w)] for y in range(h)]
        return dict(h=h, w=w, problem=prob)


class LView(LargeSpec):
    name = "view"
    spec = P.View()

    def make(self, draw):
        h, w = board(draw, 4, 6, 30)
        prob = [[-1] * w for _ in range(h)]
        return dict(inst=dict(h=h, w=w, problem=prob), planted=None)

    def check(self, inst, flat):
        h, w, p = inst["h"], inst["w"], inst["problem"]
        cells = all_cells(h, w)
        num = mask(flat, h, w, h * w)
        if any(p[y][x] >= 0 and (y, x) not in num for (y, x) in cells):
            return False
        if not connected(num):
            return False
        val = {c: P.View.value(num, c[0], c[1], h, w) for c in num}
        if any(p[y][x] >= 0 and val[(y, x)] != p[y][x] for (y, x) in num):
            return False
        if any(q in num and val[q] == val[(y, x)] for (y, x) in num for q in neighbors4(y, x, h, w)):
            return False
        # the number array must carry the values (0 on cells without a number, as in the enumerator)
        if tuple(flat[:h * w]) != tuple(val.get(c, 0) for c in cells):
            return None if all(flat[y * w + x] == val[(y, x)] for (y, x) in num) else False
        return True if num else None

    def reclue(self, inst, flat, plan):
        h, w = inst["h"], inst["w"]
        num = mask(flat, h, w, h * w)
        prob = [[P.View.value(num, y, x, h, w) if (y, x) in num and pl(plan, y * w + x) <= 1 else -1
                 for x in range(w)] for y in range(h)]
        return dict(h=h, w=w, problem=prob)


class LShakashaka(LargeSpec):
    name = "shakashaka"
    spec = P.Shakashaka()

    def make(self, draw):
        h, w = board(draw, 4, 6, 30)
        prob = [[None] * w for _ in range(h)]
        for (y, x) in sparse_cells(draw, h, w, 5):
            prob[y][x] = -1
        return dict(inst=dict(h=h, w=w, problem=prob), planted=None)

    def check(self, inst, flat):
        h, w, p = inst["h"], inst["w"], inst["problem"]
        cells = all_cells(h, w)
        wall = {c for c in cells if p[c[0]][c[1]] is not None}
        if any(flat[y * w + x] != 0 for (y, x) in wall):
            return None  # what the answer array holds on wall cells is not part of the rules
        assign = {c: flat[c[0] * w + c[1]] for c in cells if c not in wall}
        clues = {c: p[c[0]][c[1]] for c in wall if p[c[0]][c[1]] >= 0}
        return bool(P.shaka_valid(h, w, wall, assign, clues))

    def reclue(self, inst, flat, plan):
        h, w, p = inst["h"], inst["w"], inst["problem"]
        prob = [row[:] for row in p]
        for i, (y, x) in enumerate(all_cells(h, w)):
            if p[y][x] is not None:
                k = sum(1 for q in neighbors4(y, x, h, w) if p[q[0]][q[1]] is None and flat[q[0] * w + q[1]] != 0)
                prob[y][x] = k if pl(plan, i) >= 2 else -1
        return dict(h=h, w=w, problem=prob)


LARGE = [LNurikabe(), LAkari(), LNorinori(), LStarBattle(), LYinyang(), LCreek(), LGokigen(), LAquarium(),
         LPutteria(), LNurimisaki(), LHeyawake(), LLits(), LSlitherlink(), LMasyu(), LYajilin(), LSimpleloop(),
         LGeradeweg(), LCastleWall(), LSudoku(), LBuilding(), LDoppelblock(), LFillomino(), LCompass(),
         LFivecells(), LView(), LShakashaka()]


def large_specs():
    return {s.name: s for s in LARGE}


def case_strategy(ls):
    @st.composite
    def c(draw):
        made = ls.make(draw)
        nn = ls.n_neg or (CHEAP_NEG if ls.name in CHEAP else N_NEG)
        plan = draw(st.lists(st.integers(0, 5), min_size=ls.n_plan, max_size=ls.n_plan)) if ls.reclue else []
        neg = draw(st.lists(st.tuples(st.integers(0, 2), st.integers(0, 10 ** 6), st.integers(0, 10 ** 6)).map(list),
                            min_size=nn, max_size=nn))
        return dict(puzzle=ls.name, layer="large", inst=made["inst"], planted=made["planted"], plan=plan,
                    pick=draw(st.integers(0, K_MODELS - 1)), neg=neg)

    return c()


# ------------------------------------------------------------------ checker self-test
def selftest(ls, small_spec, inst):
    """on an enumerable instance the checker must accept exactly the enumerated grids (among the
    grids it is shown): raises HarnessError otherwise.  -> number of grids examined"""
    try:
        sols, n_dc = small_spec.solutions(inst)
    except base.TooBig:
        return 0
    n = 0
    for s in sols:
        n += 1
        if ls.check(inst, tuple(s)) is not True:
            raise HarnessError("%s: checker rejects an enumerated solution %r of %r" % (ls.name, s, inst))
    sset = set(map(tuple, sols))
    # single-cell perturbations of the solutions that are not solutions themselves must be rejected
    for s in sols[:4]:
        for i in range(len(s)):
            v = s[i]
            alts = [not v] if isinstance(v, bool) else [v + 1, v - 1]
            for a in alts:
                t = tuple(s[:i]) + (a,) + tuple(s[i + 1:])
                if t in sset:
                    continue
                n += 1
                try:
                    verdict = ls.check(inst, t)
                except Exception:
                    verdict = False  # ill-formed grids (values outside the domain) may not be checkable
                if verdict is True and not n_dc:
                    raise HarnessError("%s: checker accepts %r which the enumerator does not list for %r"
                                       % (ls.name, t, inst))
    return n
