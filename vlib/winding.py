"""Long winding shapes on grids: the cell sets whose induced subgraph has a large radius for its size.
A rank / distance certificate that is sized for compact shapes (a bound taken from the grid's diameter
instead of the vertex count) only fails on these, so the graph checks probe them on boards beyond
their exhaustive scope.  All randomness comes from the Hypothesis draw function."""


def nb4(c, h, w):
    y, x = c
    for q in ((y - 1, x), (y + 1, x), (y, x - 1), (y, x + 1)):
        if 0 <= q[0] < h and 0 <= q[1] < w:
            yield q


def induced_path(draw, st, h, w, straight_bias=2):
    """a random induced path (consecutive cells adjacent, no other two cells adjacent), grown greedily
    from a random start until it is stuck -> list of cells in path order"""
    cells = [(y, x) for y in range(h) for x in range(w)]
    path = [cells[draw(st.integers(0, len(cells) - 1))]]
    inpath = set(path)
    while True:
        head = path[-1]
        cands = [q for q in nb4(head, h, w) if q not in inpath and
                 all(r == head or r not in inpath for r in nb4(q, h, w))]
        if not cands:
            return path
        # hugging the previous windings makes the path longer: prefer candidates with many path cells at
        # distance two
        def crowd(q):
            return sum(1 for r in nb4(q, h, w) for t in nb4(r, h, w) if t in inpath)
        cands.sort(key=lambda q: (-crowd(q), q))
        k = draw(st.integers(0, straight_bias + len(cands) - 1))
        q = cands[0] if k < straight_bias else cands[k - straight_bias]
        path.append(q)
        inpath.add(q)


def spiral(h, w):
    """inward spiral with one-cell gaps, starting at the top-left corner -> list of cells in path order"""
    path = []
    seen = set()
    blocked = set()
    y, x = 0, 0
    dy, dx = 0, 1
    while True:
        path.append((y, x))
        seen.add((y, x))
        moved = False
        for _ in range(2):
            ny, nx = y + dy, x + dx
            ok = 0 <= ny < h and 0 <= nx < w and (ny, nx) not in seen and \
                all(r == (y, x) or r not in seen for r in nb4((ny, nx), h, w))
            if ok:
                y, x = ny, nx
                moved = True
                break
            dy, dx = dx, -dy
        if not moved:
            return path


def snake(h, w, vertical=False):
    """boustrophedon corridor using every second row (column) -> list of cells in path order"""
    if vertical:
        return [(x, y) for (y, x) in snake(w, h)]
    path = []
    for y in range(0, h, 2):
        row = [(y, x) for x in range(w)]
        if (y // 2) % 2:
            row.reverse()
        path += row
        if y + 2 < h:
            path.append((y + 1, row[-1][1]))
    return path


def ring(h, w):
    """the border ring (an induced cycle when h, w >= 3)"""
    return [(y, x) for y in range(h) for x in range(w) if y in (0, h - 1) or x in (0, w - 1)]


def shapes(draw, st, h, w):
    """one winding cell set -> (name, list of cells)"""
    k = draw(st.integers(0, 9))
    if k == 0:
        return "spiral", spiral(h, w)
    if k == 1:
        return "snake", snake(h, w, vertical=draw(st.booleans()))
    if k == 2 and h >= 3 and w >= 3:
        return "ring", ring(h, w)
    p = induced_path(draw, st, h, w)
    if draw(st.integers(0, 3)) == 0 and len(p) > 4:
        p = p[:draw(st.integers(3, len(p)))]
    return "induced-path", p
