"""Parser for the Sugar CSP text syntax (written from the syntax, not from sugar_like.py).

Input: one S-expression per line:  (bool NAME)  (int NAME lo hi)  constraint lines over
true false <int> NAME and (! a) (&& a..) (|| a..) (iff a b) (xor a b) (=> a b) (= x y)
(!= x y) (<= < >= >) (- x) (- x y..) (+ x..) (if c x y) (alldifferent x..)
(graph-active-vertices-connected n m a.. u v ..) (graph-division n m s.. u v .. b..), `*` for
an absent size; an optional last line `#name name ...` switches to deduction mode.

Output: refsem AST nodes; variables are identified by the integer after the sort letter.
"""

import re


class SexpError(Exception):
    pass


TOKEN = re.compile(r"\(|\)|[^\s()]+")

OPS = {
    "!": "NOT", "not": "NOT", "&&": "AND", "and": "AND", "||": "OR", "or": "OR", "iff": "IFF",
    "xor": "XOR", "=>": "IMP", "imp": "IMP", "=": "EQ", "eq": "EQ", "!=": "NE", "ne": "NE",
    "<=": "LE", "le": "LE", "<": "LT", "lt": "LT", ">=": "GE", "ge": "GE", ">": "GT", "gt": "GT",
    "+": "ADD", "add": "ADD", "if": "IF", "alldifferent": "ALLDIFF",
    "graph-active-vertices-connected": "GRAPH_ACTIVE_VERTICES_CONNECTED",
    "graph-division": "GRAPH_DIVISION",
}
ARITY = {"NOT": (1, 1), "IFF": (2, 2), "XOR": (2, 2), "IMP": (2, 2), "EQ": (2, 2), "NE": (2, 2),
         "LE": (2, 2), "LT": (2, 2), "GE": (2, 2), "GT": (2, 2), "IF": (3, 3), "ADD": (1, None)}


def read(tokens, pos):
    t = tokens[pos]
    if t == "(":
        items = []
        pos += 1
        while True:
            if pos >= len(tokens):
                raise SexpError("unbalanced parenthesis")
            if tokens[pos] == ")":
                return items, pos + 1
            x, pos = read(tokens, pos)
            items.append(x)
    if t == ")":
        raise SexpError("unexpected )")
    return t, pos + 1


def parse_line(line):
    tokens = TOKEN.findall(line)
    if not tokens:
        raise SexpError("empty line")
    x, pos = read(tokens, 0)
    if pos != len(tokens):
        raise SexpError("trailing tokens in %r" % line)
    return x


class Program:
    def __init__(self):
        self.decls = []  # ("b", id) / ("i", id, lo, hi) in textual order
        self.names = {}  # name -> decl
        self.constraints = []
        self.keys = None  # None = answer-finder mode; list of names = deduction mode


INT = re.compile(r"^-?\d+$")
NAME = re.compile(r"^([bi])(\d+)$")


def to_node(x, prog):
    if isinstance(x, str):
        if x == "true":
            return ("lit", True)
        if x == "false":
            return ("lit", False)
        if x == "*":
            return ("none",)
        if INT.match(x):
            return ("lit", int(x))
        d = prog.names.get(x)
        if d is None:
            raise SexpError("undeclared name %r" % x)
        return (d[0], d[1])
    if not x or not isinstance(x[0], str):
        raise SexpError("bad form %r" % (x,))
    head = x[0]
    args = [to_node(a, prog) for a in x[1:]]
    if head in ("-", "sub", "neg"):
        if len(args) == 1:
            return ("NEG", args[0])
        if len(args) < 1:
            raise SexpError("(-) without operands")
        return ("SUB",) + tuple(args)
    op = OPS.get(head)
    if op is None:
        raise SexpError("unknown operator %r" % head)
    lo, hi = ARITY.get(op, (0, None))
    if len(args) < lo or (hi is not None and len(args) > hi):
        raise SexpError("bad arity for %s: %d" % (head, len(args)))
    return (op,) + tuple(args)


def parse(text):
    prog = Program()
    for raw in text.split("\n"):
        line = raw.strip()
        if not line:
            continue
        if line.startswith("#"):
            if prog.keys is not None:
                raise SexpError("two answer-key lines")
            body = line[1:]
            prog.keys = [k for k in body.split(" ") if k != ""]
            continue
        if prog.keys is not None:
            raise SexpError("text after the answer-key line")
        x = parse_line(line)
        if isinstance(x, list) and x and x[0] == "bool":
            if len(x) != 2 or not isinstance(x[1], str):
                raise SexpError("bad bool declaration %r" % line)
            m = NAME.match(x[1])
            if not m or m.group(1) != "b":
                raise SexpError("boolean variable with unexpected name %r" % x[1])
            if x[1] in prog.names:
                raise SexpError("duplicate declaration %r" % x[1])
            d = ("b", int(m.group(2)))
            prog.names[x[1]] = d
            prog.decls.append(d)
        elif isinstance(x, list) and x and x[0] == "int":
            if len(x) != 4 or not all(isinstance(t, str) for t in x[1:]) or not (
                    INT.match(x[2]) and INT.match(x[3])):
                raise SexpError("bad int declaration %r" % line)
            m = NAME.match(x[1])
            if not m or m.group(1) != "i":
                raise SexpError("integer variable with unexpected name %r" % x[1])
            if x[1] in prog.names:
                raise SexpError("duplicate declaration %r" % x[1])
            d = ("i", int(m.group(2)), int(x[2]), int(x[3]))
            prog.names[x[1]] = d
            prog.decls.append(d)
        else:
            prog.constraints.append(to_node(x, prog))
    if prog.keys is not None:
        for k in prog.keys:
            if k not in prog.names:
                raise SexpError("answer key %r is not declared" % k)
    return prog
