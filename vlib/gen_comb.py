"""Joint generation of (serializer combinator term, value in its domain) as plain data.

Term descriptors (lists):
  ["FixStr", s] ["Dict", before, after] ["Spaces", space, c] ["DecInt"] ["HexInt"]
  ["IntSpaces", space, max_int, max_spaces] ["MultiDigit", base, digits]
  ["OneOf", [terms]] ["Tupl", [terms]] ["Seq", term, n] ["Grid", term, h, w] (h, w may be None)
  ["Rooms", {kwargs}] ["ValuedRooms", term, {kwargs}]
Values are plain data with tuples written as {"tup": [...]}; `to_py` converts.

Values are *image-shaped* (what deserialize can return): e.g. a Tupl element holds exactly the
items one serialize call consumes.  OneOf alternatives have pairwise disjoint first-character
sets, Dict targets are prefix-free and non-empty, DecInt is only followed by a non-digit.
"""

B36 = "0123456789abcdefghijklmnopqrstuvwxyz"


def build_term(t):
    from cspuz import problem_serializer as ps

    k = t[0]
    if k == "FixStr":
        return ps.FixStr(t[1])
    if k == "Dict":
        return ps.Dict([to_py(b) for b in t[1]], list(t[2]))
    if k == "Spaces":
        return ps.Spaces(to_py(t[1]), t[2])
    if k == "DecInt":
        return ps.DecInt()
    if k == "HexInt":
        return ps.HexInt()
    if k == "IntSpaces":
        return ps.IntSpaces(t[1], t[2], t[3])
    if k == "MultiDigit":
        return ps.MultiDigit(t[1], t[2])
    if k == "OneOf":
        alts = [build_term(x) for x in t[1]]
        return ps.OneOf(alts) if t[2:] == ["list"] else ps.OneOf(*alts)
    if k == "Tupl":
        return ps.Tupl(*[build_term(x) for x in t[1]])
    if k == "Seq":
        return ps.Seq(build_term(t[1]), t[2])
    if k == "Grid":
        if t[2] is None:
            return ps.Grid(build_term(t[1]))
        return ps.Grid(build_term(t[1]), t[2], t[3])
    if k == "Rooms":
        return ps.Rooms(**t[1])
    if k == "ValuedRooms":
        return ps.ValuedRooms(build_term(t[1]), **t[2])
    raise ValueError(t)


def to_py(v):
    if isinstance(v, dict):
        return tuple(to_py(x) for x in v["tup"])
    if isinstance(v, list):
        return [to_py(x) for x in v]
    return v


def from_py(v):
    if isinstance(v, tuple):
        return {"tup": [from_py(x) for x in v]}
    if isinstance(v, list):
        return [from_py(x) for x in v]
    return v


def canon_rooms(rooms):
    """rooms sorted by smallest cell, cells sorted (python values)"""
    return sorted([sorted(r) for r in rooms])


def depth(t):
    k = t[0]
    if k in ("OneOf", "Tupl"):
        return 1 + max([depth(x) for x in t[1]] + [0])
    if k in ("Seq", "Grid", "ValuedRooms"):
        return 1 + depth(t[1])
    return 0


def kinds(t, acc=None):
    if acc is None:
        acc = set()
    acc.add(t[0])
    if t[0] in ("OneOf", "Tupl"):
        for x in t[1]:
            kinds(x, acc)
    elif t[0] in ("Seq", "Grid", "ValuedRooms"):
        kinds(t[1], acc)
    return acc


def uses_env(t):
    """does the term read the board size from the environment?"""
    k = t[0]
    if k in ("Rooms", "ValuedRooms"):
        return True
    if k == "Grid":
        return t[2] is None or uses_env(t[1])
    if k in ("OneOf", "Tupl"):
        return any(uses_env(x) for x in t[1])
    if k == "Seq":
        return uses_env(t[1])
    return False


def ends_with_decint(t):
    k = t[0]
    if k == "DecInt":
        return True
    if k == "OneOf":
        return any(ends_with_decint(x) for x in t[1])
    if k == "Tupl":
        return bool(t[1]) and ends_with_decint(t[1][-1])
    if k in ("Seq", "Grid", "ValuedRooms"):
        return ends_with_decint(t[1])
    return False


# ---------------------------------------------------------------------------------------------
def strategies():
    from hypothesis import strategies as st

    hexv = st.one_of(st.integers(0, 4095), st.sampled_from([0, 15, 16, 17, 255, 256, 257, 4095]))
    punct = ".!*_=%~"

    class Item:
        """an item-level term with a way to draw streams and chunks"""

        def __init__(self, term, stream, chunk, flags=()):
            self.term = term
            self.stream = stream  # (draw, n) -> list of n items (plain data)
            self.chunk = chunk    # (draw) -> list of items consumed by exactly one serialize call
            self.flags = set(flags)

    def item_term(draw):
        """OneOf-or-single item-level term with disjoint first-character classes"""
        low = draw(st.sampled_from(["HexInt", "HexInt", "IntSpaces", "MultiDigit", "none", "HexInt"]))
        space_kind = draw(st.sampled_from(["int", "int", "str"]))
        space = draw(st.sampled_from([-1, 0, -2])) if space_kind == "int" else draw(st.sampled_from(["..", "?", ""]))
        alts = []
        flags = set()
        lowK = 0  # number of base-36 characters used by the low alternative
        low_gen = None
        if low == "HexInt":
            alts.append(["HexInt"])
            lowK = 16
            low_gen = lambda d: d(hexv)
            low_accepts = lambda v: isinstance(v, int) and not isinstance(v, bool) and 0 <= v <= 4095
        elif low == "IntSpaces":
            max_int = draw(st.integers(0, 8))
            max_sp = draw(st.integers(0, 36 // (max_int + 1) - 1))
            if space_kind != "int" or 0 <= space <= max_int:
                space = -1
                space_kind = "int"
            alts.append(["IntSpaces", space, max_int, max_sp])
            lowK = (max_int + 1) * (max_sp + 1)
            low_gen = lambda d: d(st.integers(0, max_int))
            low_accepts = lambda v: isinstance(v, int) and 0 <= v <= max_int
            flags.add("IntSpaces")
        elif low == "MultiDigit":
            base = draw(st.integers(2, 6))
            digits = draw(st.integers(1, 5))
            while base ** digits > 36:
                digits -= 1
            alts.append(["MultiDigit", base, digits])
            lowK = base ** digits
            low_gen = lambda d: d(st.integers(0, base - 1))
            low_accepts = lambda v: isinstance(v, int) and 0 <= v < base
            flags.add("MultiDigit")
        else:
            low_accepts = lambda v: False
        # Spaces alternative (characters c..z with c >= lowK)
        has_spaces = False
        max_run = None
        # MultiDigit packs several items into one character and cannot share a stream with other
        # alternatives (an item of another alternative inside a group is not serializable)
        if low != "MultiDigit" and lowK <= 35 and draw(st.integers(0, 3)) > 0:
            c_idx = draw(st.integers(lowK, 35))
            if low == "MultiDigit" and low_accepts(space):
                space = -1
            alts.append(["Spaces", from_py(space), B36[c_idx]])
            has_spaces = True
            max_run = 36 - c_idx
            flags.add("Spaces")
        # Dict alternative with punctuation targets (prefix-free by distinct first characters,
        # or a shared first character with equal lengths)
        dict_items = []
        if low != "MultiDigit" and (draw(st.integers(0, 2)) == 0 or not alts):
            nd = draw(st.integers(1, 3))
            firsts = draw(st.lists(st.sampled_from(list(punct)), min_size=nd, max_size=nd, unique=True))
            after = []
            for f in firsts:
                ln = draw(st.integers(1, 2))
                after.append(f + ("x" if ln == 2 else ""))
            cands = [-7, "q", -9, 5000, "w"]
            before = [x for x in cands if x != space][:nd]
            alts.append(["Dict", before, after])
            dict_items = before
            flags.add("Dict")
        order = draw(st.permutations(list(range(len(alts)))))
        alts = [alts[i] for i in order]
        if len(alts) == 1 and draw(st.booleans()):
            term = alts[0]
        else:
            term = ["OneOf", alts] + (["list"] if draw(st.booleans()) else [])
        intsp = next((a for a in alts if a[0] == "IntSpaces"), None)

        def stream(d, n):
            out = []
            while len(out) < n:
                kinds_ = []
                if low_gen is not None:
                    kinds_ += ["low"] * 3
                if has_spaces:
                    kinds_ += ["run"] * 2
                if intsp is not None and intsp[3] > 0 and out and low_accepts(out[-1]) and not has_spaces:
                    kinds_ += ["shortrun"]
                if dict_items:
                    kinds_ += ["dict"]
                if not kinds_:
                    kinds_ = ["dict"]
                k = d(st.sampled_from(kinds_))
                if k == "low":
                    out.append(low_gen(d))
                elif k == "dict":
                    out.append(d(st.sampled_from(dict_items)))
                elif k == "run":
                    ln = d(st.sampled_from([1, 2, 3, max(1, max_run - 1), max_run, max_run + 1,
                                            2 * max_run + 3]))
                    out += [from_py(space)] * ln
                else:  # spaces that only IntSpaces can absorb: at most max_spaces after a number
                    out += [from_py(space)] * d(st.integers(1, intsp[3]))
            out = out[:n]
            if intsp is not None and not has_spaces:
                # without a Spaces alternative a space is only legal in a run of <= max_spaces
                # directly after a number
                fixed = []
                run = 0
                for v in out:
                    if v == from_py(space):
                        if fixed and run < intsp[3] and (low_accepts(fixed[-1]) or run > 0):
                            fixed.append(v)
                            run += 1
                        else:
                            fixed.append(0)
                            run = 0
                    else:
                        fixed.append(v)
                        run = 0
                out = fixed
            return out

        def chunk(d):
            """items consumed by exactly one serialize call of this term at index 0"""
            ks = []
            if low_gen is not None:
                ks.append("low")
            if has_spaces:
                ks.append("run")
            if dict_items:
                ks.append("dict")
            k = d(st.sampled_from(ks))
            if k == "dict":
                return [d(st.sampled_from(dict_items))]
            if k == "run":
                # a single Spaces call consumes at most max_run
                if low_accepts(space):
                    # the low alternative may come first and take a single item
                    return [from_py(space)]
                return [from_py(space)] * d(st.integers(1, max_run))
            if low == "HexInt":
                return [low_gen(d)]
            if low == "MultiDigit":
                dg = next(a for a in alts if a[0] == "MultiDigit")[2]
                return [low_gen(d) for _ in range(dg)]
            # IntSpaces: number + up to max_spaces spaces
            return [low_gen(d)] + [from_py(space)] * d(st.integers(0, intsp[3]))

        return Item(term, stream, chunk, flags)

    def rooms_value(draw, h, w):
        """random partition of the h x w board into orthogonally connected rooms (a random spanning
        tree with some of its edges removed, so that every connected partition is reachable, U- and
        J-shaped rooms included), rooms and cells in random order; returns (rooms, shuffled)"""
        cells = [(y, x) for y in range(h) for x in range(w)]
        edges = []
        for (y, x) in cells:
            if x + 1 < w:
                edges.append(((y, x), (y, x + 1)))
            if y + 1 < h:
                edges.append(((y, x), (y + 1, x)))
        parent = {c: c for c in cells}

        def find(c):
            while parent[c] != c:
                parent[c] = parent[parent[c]]
                c = parent[c]
            return c

        tree = []
        if edges:
            for i in draw(st.permutations(list(range(len(edges))))):
                a, b = edges[i]
                ra, rb = find(a), find(b)
                if ra != rb:
                    parent[ra] = rb
                    tree.append((a, b))
        n_cut = draw(st.integers(0, len(tree))) if tree else 0
        if tree and draw(st.booleans()):
            n_cut = min(n_cut, 3)
        keep = tree[n_cut:]
        parent = {c: c for c in cells}
        for a, b in keep:
            parent[find(a)] = find(b)
        groups = {}
        for c in cells:
            groups.setdefault(find(c), []).append(c)
        rooms = list(groups.values())
        shuffled = draw(st.booleans())
        if shuffled:
            rooms = [list(draw(st.permutations(r))) for r in rooms]
            rooms = list(draw(st.permutations(rooms)))
        return rooms, shuffled

    @st.composite
    def case(draw):
        H = draw(st.one_of(st.integers(1, 5), st.sampled_from([1, 1, 2, 7])))
        W = draw(st.one_of(st.integers(1, 5), st.sampled_from([1, 1, 3, 6])))
        flags = set()

        def value_term(depth_left, as_element):
            """-> (term, value) where value is what sits in ONE item position (as_element=False)
            or the list one Tupl element serialize call consumes (as_element=True)"""
            opts = ["item", "item", "grid", "grid", "seq"]
            if depth_left > 0:
                opts += ["tupl", "tupl", "rooms", "vrooms", "seq_nested"]
            else:
                opts += ["rooms"]
            if as_element:
                opts += ["fix", "dec"]
            k = draw(st.sampled_from(opts))
            if k == "fix":
                s = draw(st.sampled_from(["/", "", "ab", "-", "0"]))
                return ["FixStr", s], []
            if k == "dec":
                return ["DecInt"], [draw(st.one_of(st.integers(0, 20), st.integers(0, 10**6)))]
            if k == "item":
                it = item_term(draw)
                flags.update(it.flags)
                if as_element:
                    return it.term, it.chunk(draw)
                # a single item position: an item-level term is only a sensible top-level term when
                # one call decodes to exactly one item; otherwise wrap it into a Seq
                if "MultiDigit" in it.flags:
                    n = draw(st.integers(1, 9))
                    return ["Seq", it.term, n], it.stream(draw, n)
                return it.term, it.stream(draw, 1)[0]
            if k == "grid":
                it = item_term(draw)
                flags.update(it.flags)
                explicit = draw(st.booleans())
                h, w = (draw(st.integers(1, 4)), draw(st.integers(1, 4))) if explicit else (H, W)
                flat = it.stream(draw, h * w)
                val = [flat[y * w:(y + 1) * w] for y in range(h)]
                flags.add("grid")
                if h == 1 or w == 1:
                    flags.add("single-row-or-column")
                t = ["Grid", it.term, h if explicit else None, w if explicit else None]
                return t, ([val] if as_element else val)
            if k == "seq":
                it = item_term(draw)
                flags.update(it.flags)
                n = draw(st.one_of(st.integers(0, 12), st.integers(30, 80)))
                val = it.stream(draw, n)
                return ["Seq", it.term, n], ([val] if as_element else val)
            if k == "seq_nested":
                n = draw(st.integers(0, 3))
                sub_t, _ = value_term(depth_left - 1, False)
                if ends_with_decint(sub_t):
                    n = min(n, 1)  # a DecInt must not be followed by the digits of the next item
                # the same term for all n items: redraw values for the fixed term
                vals = [value_for(sub_t) for _ in range(n)]
                return ["Seq", sub_t, n], ([vals] if as_element else vals)
            if k == "tupl":
                ne = draw(st.integers(0, 4))
                terms, vals = [], []
                for i in range(ne):
                    t, v = value_term(depth_left - 1, True)
                    if terms and ends_with_decint(terms[-1]):
                        # DecInt must be followed by a non-digit
                        terms.append(["FixStr", "/"])
                        vals.append([])
                    terms.append(t)
                    vals.append(v)
                val = {"tup": vals}
                return ["Tupl", terms], ([val] if as_element else val)
            if k == "rooms":
                rooms, shuffled = rooms_value(draw, H, W)
                flags.add("rooms")
                if shuffled:
                    flags.add("unsorted-rooms")
                if H == 1 or W == 1:
                    flags.add("single-row-or-column")
                kw = {}
                if draw(st.booleans()):
                    kw["skip_on_error"] = draw(st.booleans())
                val = from_py(rooms)
                return ["Rooms", kw], ([val] if as_element else val)
            if k == "vrooms":
                rooms, shuffled = rooms_value(draw, H, W)
                it = item_term(draw)
                flags.update(it.flags)
                flags.add("rooms")
                flags.add("valued-rooms")
                if shuffled:
                    flags.add("unsorted-rooms")
                if H == 1 or W == 1:
                    flags.add("single-row-or-column")
                # the value stream is serialized in canonical room order: draw it in that order and
                # hand it out to the rooms as listed
                canon_stream = it.stream(draw, len(rooms))
                order = sorted(range(len(rooms)), key=lambda i: sorted(rooms[i]))
                values = [None] * len(rooms)
                for pos, i in enumerate(order):
                    values[i] = canon_stream[pos]
                val = {"tup": [from_py(rooms), values]}
                return ["ValuedRooms", it.term, {}], ([val] if as_element else val)
            raise AssertionError(k)

        def value_for(t):
            """draw another value for an already fixed term (used by nested Seq)"""
            k = t[0]
            if k == "Grid":
                h, w = (t[2], t[3]) if t[2] is not None else (H, W)
                flat = stream_for(t[1], h * w)
                return [flat[y * w:(y + 1) * w] for y in range(h)]
            if k == "Seq":
                if t[1][0] in ("Grid", "Seq", "Tupl", "Rooms", "ValuedRooms"):
                    return [value_for(t[1]) for _ in range(t[2])]
                return stream_for(t[1], t[2])
            if k == "Rooms":
                return from_py(rooms_value(draw, H, W)[0])
            if k == "ValuedRooms":
                rooms = rooms_value(draw, H, W)[0]
                return {"tup": [from_py(rooms), stream_for(t[1], len(rooms))]}
            if k == "Tupl":
                return {"tup": [elem_for(x) for x in t[1]]}
            return stream_for(t, 1)[0]

        def simple_stream(t, n):
            """a conservative stream for a fixed item-level term: only items of the first
            alternative that has a fixed one-item encoding"""
            alts = t[1] if t[0] == "OneOf" else [t]
            for a in alts:
                if a[0] == "HexInt":
                    return [draw(hexv) for _ in range(n)]
                if a[0] == "Dict":
                    return [draw(st.sampled_from(a[1])) for _ in range(n)]
                if a[0] == "MultiDigit":
                    return [draw(st.integers(0, a[1] - 1)) for _ in range(n)]
                if a[0] == "IntSpaces":
                    return [draw(st.integers(0, a[2])) for _ in range(n)]
            a = alts[0]
            if a[0] == "Spaces":
                return [a[1]] * n
            raise AssertionError(t)

        def stream_for(t, n):
            return simple_stream(t, n)

        def elem_for(t):
            k = t[0]
            if k == "FixStr":
                return []
            if k == "DecInt":
                return [draw(st.integers(0, 999))]
            if k in ("Grid", "Seq", "Rooms", "ValuedRooms", "Tupl"):
                return [value_for(t)]
            alts = t[1] if k == "OneOf" else [t]
            a = alts[0]
            for a2 in alts:
                if a2[0] in ("HexInt", "Dict"):
                    return simple_stream(a2, 1)
            if a[0] == "MultiDigit":
                return [draw(st.integers(0, a[1] - 1)) for _ in range(a[2])]
            if a[0] == "IntSpaces":
                return [draw(st.integers(0, a[2]))]
            if a[0] == "Spaces":
                return [a[1]]
            raise AssertionError(t)

        term, value = value_term(draw(st.integers(0, 2)), False)
        # the same combinator OBJECT used again for a board of another size (this is how the module-level
        # *_COMBINATOR constants of the puzzle modules are used)
        second = None
        if uses_env(term) and draw(st.integers(0, 2)) == 0:
            H1, W1 = H, W
            H = draw(st.integers(1, 5))
            W = draw(st.integers(1, 5))
            if (H, W) == (H1, W1):
                W = W1 + 1
            second = dict(height=H, width=W, value=value_for(term))
            H, W = H1, W1
            flags.add("combinator-reused-for-another-size")
        junk = draw(st.one_of(st.just(""), st.text(alphabet="0123456789abcdefghijklmnopqrstuvwxyz-+./_", max_size=6)))
        return dict(term=term, value=value, height=H, width=W, junk=junk, flags=sorted(flags), second=second)

    return dict(case=case())
