"""Geometric model of an h x w grid frame, independent of cspuz.grid_frame.

Points (py, px) with 0 <= py <= h, 0 <= px <= w; cells (cy, cx) with 0 <= cy < h, 0 <= cx < w.
A segment is ("H", y, x) joining points (y, x)-(y, x+1)   (0 <= y <= h, 0 <= x < w), or
             ("V", y, x) joining points (y, x)-(y+1, x)   (0 <= y < h, 0 <= x <= w).
Doubled coordinates: ("H", y, x) -> (2y, 2x+1); ("V", y, x) -> (2y+1, 2x).
"""


class Lattice:
    def __init__(self, h, w):
        self.h = h
        self.w = w
        self.hsegs = [("H", y, x) for y in range(h + 1) for x in range(w)]
        self.vsegs = [("V", y, x) for y in range(h) for x in range(w + 1)]
        # construction order of BoolGridFrame: horizontal array first, then vertical
        self.segments = self.hsegs + self.vsegs
        self.index = {s: i for i, s in enumerate(self.segments)}

    # ---- geometry
    def endpoints(self, seg):
        k, y, x = seg
        if k == "H":
            return (y, x), (y, x + 1)
        return (y, x), (y + 1, x)

    def doubled(self, seg):
        k, y, x = seg
        return (2 * y, 2 * x + 1) if k == "H" else (2 * y + 1, 2 * x)

    def by_doubled(self, Y, X):
        """segment at doubled coordinates or None (wrong parity / out of range)"""
        if Y < 0 or X < 0:
            return None
        if Y % 2 == 0 and X % 2 == 1:
            s = ("H", Y // 2, X // 2)
        elif Y % 2 == 1 and X % 2 == 0:
            s = ("V", Y // 2, X // 2)
        else:
            return None
        return s if s in self.index else None

    def cells_of(self, seg):
        """the (up to two) cells the segment separates"""
        k, y, x = seg
        cand = [(y - 1, x), (y, x)] if k == "H" else [(y, x - 1), (y, x)]
        return [c for c in cand if 0 <= c[0] < self.h and 0 <= c[1] < self.w]

    def cell_segments(self, cy, cx):
        return {("H", cy, cx), ("H", cy + 1, cx), ("V", cy, cx), ("V", cy, cx + 1)}

    def point_segments(self, py, px):
        out = set()
        for s in self.segments:
            a, b = self.endpoints(s)
            if a == (py, px) or b == (py, px):
                out.add(s)
        return out

    def points(self):
        return [(y, x) for y in range(self.h + 1) for x in range(self.w + 1)]

    def point_id(self, p):
        return p[0] * (self.w + 1) + p[1]

    def graph(self):
        """(n, edges) of the point graph with edges in construction order of the segments"""
        return (self.h + 1) * (self.w + 1), [
            (self.point_id(a), self.point_id(b)) for a, b in map(self.endpoints, self.segments)]

    def is_interior_point(self, p):
        return 0 < p[0] < self.h and 0 < p[1] < self.w


def simple_cycles(n, edges):
    """all simple cycles of a (multi)graph as frozensets of edge indices (length >= 2 for
    parallel pairs, >= 3 otherwise)"""
    adj = [[] for _ in range(n)]
    for i, (u, v) in enumerate(edges):
        adj[u].append((v, i))
        adj[v].append((u, i))
    out = set()

    def dfs(start, u, used_v, used_e):
        for v, e in adj[u]:
            if e in used_e:
                continue
            if v == start and len(used_e) >= 1:
                out.add(frozenset(used_e | {e}))
            elif v > start and v not in used_v:
                dfs(start, v, used_v | {v}, used_e | {e})

    for s in range(n):
        dfs(s, s, {s}, frozenset())
    return out


def simple_paths(n, edges):
    """all simple paths with >= 1 edge, as frozensets of edge indices"""
    adj = [[] for _ in range(n)]
    for i, (u, v) in enumerate(edges):
        adj[u].append((v, i))
        adj[v].append((u, i))
    out = set()

    def dfs(u, used_v, used_e):
        for v, e in adj[u]:
            if v not in used_v:
                ne = used_e | {e}
                out.add(frozenset(ne))
                dfs(v, used_v | {v}, ne)

    for s in range(n):
        dfs(s, {s}, frozenset())
    return out
