"""Stand-in for the external solvers of the Sugar family (cspuz_core / enigma_csp / pycsugar
extension modules and the `sugar` executable).  Parses the CSP text with vlib.sexp, solves it
with the reference semantics (brute force when the domain product is small, refz3 otherwise)
and answers in the wire format of sugar_extension/CspuzSugarInterface.java.run().

Every call is recorded in CALLS as (entry, text).  SCRIPT, when set, is a function
(entry, text) -> reply string that dictates the reply instead (scripted-reply mode).
"""

import sys
import types

from . import refsem, sexp

CALLS = []
SCRIPT = None
ENUM_LIMIT = 20000


def _name(d):
    return "%s%d" % (d[0], d[1])


def _fmt(v):
    if isinstance(v, bool):
        return "true" if v else "false"
    return str(v)


def solve_program(prog):
    """-> None (unsat) | assignment (answer-finder) | dict name->value of decided keys."""
    small = refsem.domain_product(prog.decls) <= ENUM_LIMIT
    if prog.keys is None:
        if small:
            for asg in refsem.models(prog.decls, prog.constraints, limit=1):
                return asg
            return None
        from . import refz3

        rs = refz3.RefSolver(prog.decls, prog.constraints)
        m = rs.check()
        return None if m is None else rs.assignment(m)
    key_ids = [prog.names[k][1] for k in prog.keys]
    if small:
        common = None
        for asg in refsem.models(prog.decls, prog.constraints):
            if common is None:
                common = {k: asg[k] for k in key_ids}
            else:
                for k in list(common):
                    if common[k] != asg[k]:
                        del common[k]
        return common
    from . import refz3

    rs = refz3.RefSolver(prog.decls, prog.constraints)
    m = rs.check()
    if m is None:
        return None
    cand = {k: rs.value(m, k) for k in key_ids}
    kind = {d[1]: d[0] for d in prog.decls}
    while cand:
        alts = [("NOT", ("b", k)) if v is True else ("b", k) if v is False else
                ("NE", ("i", k), ("lit", v)) for k, v in cand.items()]
        m = rs.check([("OR",) + tuple(alts)])
        if m is None:
            break
        for k in list(cand):
            if rs.value(m, k) != cand[k]:
                del cand[k]
    return cand


def reply_for(text):
    prog = sexp.parse(text)
    res = solve_program(prog)
    if prog.keys is None:
        if res is None:
            return "s UNSATISFIABLE\n"
        lines = ["s SATISFIABLE"]
        for d in prog.decls:
            if d[0] == "i":
                lines.append("a %s\t%s" % (_name(d), _fmt(res[d[1]])))
        for d in prog.decls:
            if d[0] == "b":
                lines.append("a %s\t%s" % (_name(d), _fmt(res[d[1]])))
        lines.append("a")
        return "\n".join(lines) + "\n"
    if res is None:
        return "unsat\n"
    lines = ["sat"]
    keyset = set(prog.keys)
    for d in prog.decls:
        if d[0] == "i" and _name(d) in keyset and d[1] in res:
            lines.append("%s %s" % (_name(d), _fmt(res[d[1]])))
    for d in prog.decls:
        if d[0] == "b" and _name(d) in keyset and d[1] in res:
            lines.append("%s %s" % (_name(d), _fmt(res[d[1]])))
    return "\n".join(lines) + "\n"


def call(entry, text):
    CALLS.append((entry, text))
    if SCRIPT is not None:
        return SCRIPT(entry, text)
    return reply_for(text)


def make_module(name):
    m = types.ModuleType(name)
    m.__fake__ = True
    m.solver = lambda text, _n=name: call(_n, text)
    return m


class installed:
    """context manager: make the given fake modules importable, block the others.

    available: iterable of module names among cspuz_core, enigma_csp, pycsugar (and 'z3' may be
    listed in `block` to make `import z3` fail)."""

    NAMES = ("cspuz_core", "enigma_csp", "pycsugar")

    def __init__(self, available=NAMES, block=()):
        self.available = set(available)
        self.block = set(block)
        self.saved = {}

    def __enter__(self):
        for n in self.NAMES:
            self.saved[n] = sys.modules.get(n, "absent")
            if n in self.available:
                sys.modules[n] = make_module(n)
            else:
                sys.modules[n] = None  # import raises ImportError
        for n in self.block:
            self.saved[n] = sys.modules.get(n, "absent")
            sys.modules[n] = None
        return self

    def __exit__(self, *a):
        for n, v in self.saved.items():
            if v == "absent":
                sys.modules.pop(n, None)
            else:
                sys.modules[n] = v
        return False
