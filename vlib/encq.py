"""Interrogating an encoding: after a cspuz.graph function has posted its constraints on a
Solver, read the program through the public data model and decide, with the independent
RefSolver, which assignments of the caller-visible variables extend to a model."""

from . import refsem, refz3


class Query:
    def __init__(self, solver):
        self.decls = refsem.decls_of(solver.variables)
        self.cons = [refsem.from_cspuz(c) for c in solver.constraints]
        self.rs = refz3.RefSolver(self.decls, self.cons)

    def admits(self, ids, values):
        return self.rs.sat_fixed(ids, values)

    def admitted_set(self, ids, limit=None):
        return set(self.rs.allsat(ids, limit=limit))

    def forced(self, ids, values, out_ids, out_values):
        return self.rs.forced(ids, values, out_ids, out_values)


def var_ids(seq):
    return [v.id for v in seq]
