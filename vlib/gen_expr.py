"""Recipes: plain-data descriptions of how an expression is written in cspuz' DSL.

A recipe is a nested list.  `build` writes it through the public DSL (operator overloads,
then/cond, cspuz.count_true/fold_and/fold_or/alldifferent/cond, array methods); `rev` gives
its value under an assignment with the ordinary meaning of the operators as written (this is
the reference, and it never looks at the tree cspuz built).  `negate` is a structural
negation used to plant unsatisfiable programs.

Bool recipes:  ["bvar",k] ["blit",v] ["not",a] ["and",a,b] ["or",a,b] ["xor",a,b] ["iff",a,b]
               ["neq",a,b] ["imp",a,b] ["eq"|"ne"|"le"|"lt"|"ge"|"gt",x,y] ["alldiff",[x..],form]
               ["fold_and",[a..],form] ["fold_or",[a..],form]
Int recipes:   ["ivar",k] ["ilit",n] ["neg",x] ["add",x,y] ["sub",x,y] ["cond",c,x,y,form]
               ["count_true",[a..],form] ["sum",[x..]] ["nsub",[x..]] ["nadd",[x..]]
form: "fn" (free function), "arr" (array method, falls back to fn when an item is a literal),
      "meth" (scalar method)
"""

BOOL_BIN = {"and": "AND", "or": "OR", "xor": "XOR", "iff": "IFF", "neq": "XOR", "imp": "IMP"}
CMP = {"eq": "EQ", "ne": "NE", "le": "LE", "lt": "LT", "ge": "GE", "gt": "GT"}


class Vars:
    """the variables a recipe may refer to: lists of cspuz BoolVar / IntVar (in declaration
    order per sort)"""

    def __init__(self):
        self.b = []
        self.i = []


def build(r, V):
    """build the cspuz object of a recipe.  When V carries a `pool` (dict), equal sub-recipes are built
    once and the SAME object is reused wherever they occur again (expression DAGs, as user code that keeps
    a partial sum in a variable produces them), and the binary operators are applied in their augmented
    form (`a += b`, `a &= b`, ...), which must not change an object that is still referenced elsewhere."""
    pool = getattr(V, "pool", None)
    if pool is None or r[0] in ("bvar", "ivar", "blit", "ilit"):
        return _build(r, V)
    import json

    key = json.dumps(r)
    if key not in pool:
        pool[key] = _build(r, V)
    return pool[key]


def _aug(op, a, b):
    if op == "add":
        a += b
    elif op == "sub":
        a -= b
    elif op == "and":
        a &= b
    elif op == "or":
        a |= b
    else:
        a ^= b
    return a


def _build(r, V):
    import cspuz
    from cspuz import constraints as C
    from cspuz.array import BoolArray1D, IntArray1D
    from cspuz.expr import BoolExpr, Expr, IntExpr, Op

    t = r[0]
    if t == "bvar":
        return V.b[r[1]]
    if t == "ivar":
        return V.i[r[1]]
    if t == "blit" or t == "ilit":
        return r[1]
    if t == "not":
        a = build(r[1], V)
        return (not a) if isinstance(a, bool) else ~a
    if t in BOOL_BIN:
        a = build(r[1], V)
        b = build(r[2], V)
        if getattr(V, "pool", None) is not None and t in ("and", "or", "xor"):
            return _aug(t, a, b)
        if t == "and":
            return a & b
        if t == "or":
            return a | b
        if t == "xor":
            return a ^ b
        if t == "iff":
            return a == b
        if t == "neq":
            return a != b
        if t == "imp":
            if isinstance(a, bool):
                return C.then(a, b)
            return a.then(b)
    if t in CMP:
        a = build(r[1], V)
        b = build(r[2], V)
        if t == "eq":
            return a == b
        if t == "ne":
            return a != b
        if t == "le":
            return a <= b
        if t == "lt":
            return a < b
        if t == "ge":
            return a >= b
        if t == "gt":
            return a > b
    if t == "neg":
        return -build(r[1], V)
    if t in ("add", "sub") and getattr(V, "pool", None) is not None:
        return _aug(t, build(r[1], V), build(r[2], V))
    if t == "add":
        return build(r[1], V) + build(r[2], V)
    if t == "sub":
        return build(r[1], V) - build(r[2], V)
    if t == "cond":
        c = build(r[1], V)
        x = build(r[2], V)
        y = build(r[3], V)
        if r[4] == "meth" and isinstance(c, BoolExpr):
            return c.cond(x, y)
        return cspuz.cond(c, x, y)
    if t in ("fold_and", "fold_or", "count_true"):
        items = [build(x, V) for x in r[1]]
        if r[2] == "arr" and items and all(isinstance(x, Expr) for x in items):
            return getattr(BoolArray1D(items), t)()
        if r[2] == "nest":
            # nested iterables: list of (tuple, generator, scalar)
            k = len(items) // 2
            return getattr(cspuz, t)([tuple(items[:k]), (x for x in items[k:])])
        return getattr(cspuz, t)(items)
    if t == "alldiff":
        items = [build(x, V) for x in r[1]]
        if r[2] == "arr" and items and all(isinstance(x, Expr) for x in items):
            return IntArray1D(items).alldifferent()
        if r[2] == "star":
            return cspuz.alldifferent(*items)
        return cspuz.alldifferent(items)
    if t == "sum":
        return sum(build(x, V) for x in r[1])
    if t == "nsub":
        return IntExpr(Op.SUB, [build(x, V) for x in r[1]])
    if t == "nadd":
        return IntExpr(Op.ADD, [build(x, V) for x in r[1]])
    raise ValueError("bad recipe %r" % (r,))


def rev(r, B, I):
    """value of recipe r; B / I are the lists of values of the bool / int variables."""
    t = r[0]
    if t == "bvar":
        return B[r[1]]
    if t == "ivar":
        return I[r[1]]
    if t == "blit" or t == "ilit":
        return r[1]
    if t == "not":
        return not rev(r[1], B, I)
    if t == "and":
        return bool(rev(r[1], B, I)) and bool(rev(r[2], B, I))
    if t == "or":
        return bool(rev(r[1], B, I)) or bool(rev(r[2], B, I))
    if t in ("xor", "neq"):
        return bool(rev(r[1], B, I)) != bool(rev(r[2], B, I))
    if t == "iff":
        return bool(rev(r[1], B, I)) == bool(rev(r[2], B, I))
    if t == "imp":
        return (not rev(r[1], B, I)) or bool(rev(r[2], B, I))
    if t in CMP:
        a = rev(r[1], B, I)
        b = rev(r[2], B, I)
        return {"eq": a == b, "ne": a != b, "le": a <= b, "lt": a < b, "ge": a >= b,
                "gt": a > b}[t]
    if t == "neg":
        return -rev(r[1], B, I)
    if t == "add":
        return rev(r[1], B, I) + rev(r[2], B, I)
    if t == "sub":
        return rev(r[1], B, I) - rev(r[2], B, I)
    if t == "cond":
        return rev(r[2], B, I) if rev(r[1], B, I) else rev(r[3], B, I)
    if t == "fold_and":
        return all(rev(x, B, I) for x in r[1])
    if t == "fold_or":
        return any(rev(x, B, I) for x in r[1])
    if t == "count_true":
        return sum(1 for x in r[1] if rev(x, B, I))
    if t == "alldiff":
        vals = [rev(x, B, I) for x in r[1]]
        return len(set(vals)) == len(vals)
    if t in ("sum", "nadd"):
        return sum(rev(x, B, I) for x in r[1])
    if t == "nsub":
        vals = [rev(x, B, I) for x in r[1]]
        out = vals[0]
        for v in vals[1:]:
            out -= v
        return out
    raise ValueError("bad recipe %r" % (r,))


def negate(r):
    """structural negation of a bool recipe (De Morgan / comparison flip); never builds a
    ["not", ...] around the whole thing unless nothing else applies."""
    t = r[0]
    if t == "blit":
        return ["blit", not r[1]]
    if t == "not":
        return r[1]
    if t == "and":
        return ["or", negate(r[1]), negate(r[2])]
    if t == "or":
        return ["and", negate(r[1]), negate(r[2])]
    if t in ("xor", "neq"):
        return ["iff", r[1], r[2]]
    if t == "iff":
        return ["xor", r[1], r[2]]
    if t == "imp":
        return ["and", r[1], negate(r[2])]
    flip = {"eq": "ne", "ne": "eq", "le": "gt", "gt": "le", "lt": "ge", "ge": "lt"}
    if t in flip:
        return [flip[t], r[1], r[2]]
    if t == "fold_and":
        return ["fold_or", [negate(x) for x in r[1]], r[2]]
    if t == "fold_or":
        return ["fold_and", [negate(x) for x in r[1]], r[2]]
    return ["not", r]


def ops_of(r, acc=None):
    if acc is None:
        acc = set()
    acc.add(r[0])
    for x in r[1:]:
        if isinstance(x, list):
            if x and isinstance(x[0], str):
                ops_of(x, acc)
            else:
                for y in x:
                    if isinstance(y, list):
                        ops_of(y, acc)
    return acc


def has_const_aggregate(r):
    """contains an empty or constant-only aggregate (count_true([]), fold_or([True]), ...)"""
    t = r[0]
    if t in ("fold_and", "fold_or", "count_true", "alldiff", "sum"):
        if all(x[0] in ("blit", "ilit") for x in r[1]):
            return True
    for x in r[1:]:
        if isinstance(x, list):
            if x and isinstance(x[0], str):
                if has_const_aggregate(x):
                    return True
            else:
                for y in x:
                    if isinstance(y, list) and has_const_aggregate(y):
                        return True
    return False


def is_literal_only(r):
    return not (ops_of(r) & {"bvar", "ivar"})


# ------------------------------------------------------------------ Hypothesis strategies
def strategies():
    from hypothesis import strategies as st

    small_int = st.integers(-4, 6)

    def int_expr(draw, nb, ni, depth, lits):
        leafs = []
        if ni:
            leafs += ["ivar"] * 4
        leafs += ["ilit"] * (2 if ni else 3)
        if depth <= 0:
            k = draw(st.sampled_from(leafs))
        else:
            k = draw(st.sampled_from(leafs + ["neg", "add", "add", "sub", "sub", "cond",
                                              "count_true", "count_true", "sum", "nsub", "nadd"]))
        if k == "ivar":
            return ["ivar", draw(st.integers(0, ni - 1))]
        if k == "ilit":
            return ["ilit", draw(lits)]
        if k == "neg":
            return ["neg", int_expr(draw, nb, ni, depth - 1, lits)]
        if k in ("add", "sub"):
            return [k, int_expr(draw, nb, ni, depth - 1, lits),
                    int_expr(draw, nb, ni, depth - 1, lits)]
        if k == "cond":
            return ["cond", bool_expr(draw, nb, ni, depth - 1, lits),
                    int_expr(draw, nb, ni, depth - 1, lits),
                    int_expr(draw, nb, ni, depth - 1, lits),
                    draw(st.sampled_from(["meth", "fn"]))]
        if k == "count_true":
            n = draw(st.integers(0, 4))
            return ["count_true", [bool_expr(draw, nb, ni, depth - 1, lits) for _ in range(n)],
                    draw(st.sampled_from(["fn", "arr", "nest"]))]
        if k == "sum":
            n = draw(st.integers(0, 4))
            return ["sum", [int_expr(draw, nb, ni, depth - 1, lits) for _ in range(n)]]
        if k == "nsub":
            n = draw(st.integers(2, 4))
            return ["nsub", [int_expr(draw, nb, ni, depth - 1, lits) for _ in range(n)]]
        if k == "nadd":
            n = draw(st.integers(1, 4))
            return ["nadd", [int_expr(draw, nb, ni, depth - 1, lits) for _ in range(n)]]
        raise AssertionError(k)

    def bool_expr(draw, nb, ni, depth, lits):
        leafs = []
        if nb:
            leafs += ["bvar"] * 5
        leafs += ["blit"]
        if depth <= 0:
            if ni and draw(st.booleans()):
                k = draw(st.sampled_from(list(CMP)))
            else:
                k = draw(st.sampled_from(leafs))
        else:
            k = draw(st.sampled_from(
                leafs + ["not", "and", "or", "xor", "iff", "neq", "imp", "alldiff", "fold_and",
                         "fold_or"] + list(CMP) * 2))
        if k == "bvar":
            return ["bvar", draw(st.integers(0, nb - 1))]
        if k == "blit":
            return ["blit", draw(st.booleans())]
        if k == "not":
            return ["not", bool_expr(draw, nb, ni, depth - 1, lits)]
        if k in BOOL_BIN:
            return [k, bool_expr(draw, nb, ni, depth - 1, lits),
                    bool_expr(draw, nb, ni, depth - 1, lits)]
        if k in CMP:
            return [k, int_expr(draw, nb, ni, max(0, depth - 1), lits),
                    int_expr(draw, nb, ni, max(0, depth - 1), lits)]
        if k == "alldiff":
            n = draw(st.integers(0, 4))
            return ["alldiff", [int_expr(draw, nb, ni, depth - 1, lits) for _ in range(n)],
                    draw(st.sampled_from(["fn", "arr", "star"]))]
        if k in ("fold_and", "fold_or"):
            n = draw(st.integers(0, 4))
            return [k, [bool_expr(draw, nb, ni, depth - 1, lits) for _ in range(n)],
                    draw(st.sampled_from(["fn", "arr", "nest"]))]
        raise AssertionError(k)

    @st.composite
    def bool_recipe(draw, nb, ni, max_depth=3, lits=small_int):
        return bool_expr(draw, nb, ni, draw(st.integers(0, max_depth)), lits)

    @st.composite
    def int_recipe(draw, nb, ni, max_depth=3, lits=small_int):
        return int_expr(draw, nb, ni, draw(st.integers(0, max_depth)), lits)

    def decl(kind):
        if kind == "enum":
            return st.one_of(
                st.just(["b"]), st.just(["b"]),
                st.builds(lambda lo, w: ["i", lo, lo + w], st.integers(-4, 3), st.integers(0, 5)),
                st.builds(lambda lo: ["i", lo, lo], st.integers(-6, 6)),
                # small domains far from zero (values outside CPython's small-int cache)
                st.builds(lambda lo, w: ["i", lo, lo + w], st.sampled_from([254, 255, 300, 1000, -7, -40, -300]),
                          st.integers(0, 3)),
            )
        return st.one_of(
            st.just(["b"]),
            st.builds(lambda lo, w: ["i", lo, lo + w], st.integers(-10**6, 10**6),
                      st.integers(0, 2 * 10**6)),
            st.builds(lambda lo, w: ["i", lo, lo + w], st.integers(-50, 50), st.integers(0, 200)),
        )

    return dict(bool_recipe=bool_recipe, int_recipe=int_recipe, decl=decl)
