"""Textbook graph predicates and enumerators used as oracles (independent of cspuz.graph)."""

import itertools


# ------------------------------------------------------------------ basic
def components(n, edges, alive=None):
    """label list (-1 for dead vertices) and number of components of the induced subgraph"""
    if alive is None:
        alive = [True] * n
    adj = [[] for _ in range(n)]
    for u, v in edges:
        if alive[u] and alive[v]:
            adj[u].append(v)
            adj[v].append(u)
    label = [-1] * n
    c = 0
    for s in range(n):
        if alive[s] and label[s] < 0:
            label[s] = c
            q = [s]
            while q:
                u = q.pop()
                for v in adj[u]:
                    if label[v] < 0:
                        label[v] = c
                        q.append(v)
            c += 1
    return label, c


def induced_connected(n, edges, active):
    """active vertices induce a connected subgraph; no active vertex counts as connected"""
    return components(n, edges, active)[1] <= 1


def induced_tree(n, edges, active):
    """active vertices induce a tree (connected, |E| = |V| - 1), or there is none.
    Defined for simple graphs."""
    k = sum(1 for a in active if a)
    if k == 0:
        return True
    if components(n, edges, active)[1] != 1:
        return False
    m = sum(1 for u, v in edges if active[u] and active[v])
    return m == k - 1


class UF:
    def __init__(self, n):
        self.p = list(range(n))

    def find(self, x):
        while self.p[x] != x:
            self.p[x] = self.p[self.p[x]]
            x = self.p[x]
        return x

    def union(self, a, b):
        a, b = self.find(a), self.find(b)
        if a == b:
            return False
        self.p[a] = b
        return True


def edges_acyclic(n, edges, active):
    """no active edge closes a cycle (two active parallel edges do)"""
    uf = UF(n)
    for (u, v), a in zip(edges, active):
        if a and not uf.union(u, v):
            return False
    return True


def degrees(n, edges, active):
    d = [0] * n
    for (u, v), a in zip(edges, active):
        if a:
            d[u] += 1
            d[v] += 1
    return d


def active_edges_connected(n, edges, active):
    """the active edges form one connected piece (or there is none)"""
    uf = UF(n)
    touched = set()
    for (u, v), a in zip(edges, active):
        if a:
            uf.union(u, v)
            touched.add(u)
            touched.add(v)
    return len({uf.find(x) for x in touched}) <= 1


def single_cycle(n, edges, active):
    """empty, or every touched vertex has degree exactly 2 and the active edges are connected"""
    if not any(active):
        return True
    d = degrees(n, edges, active)
    if any(x not in (0, 2) for x in d):
        return False
    return active_edges_connected(n, edges, active)


def single_path(n, edges, active):
    """empty, or exactly two vertices of degree 1, all others 0 or 2, connected (>= 1 edge)"""
    if not any(active):
        return True
    d = degrees(n, edges, active)
    if any(x not in (0, 1, 2) for x in d):
        return False
    if sum(1 for x in d if x == 1) != 2:
        return False
    return active_edges_connected(n, edges, active)


def visited(n, edges, active):
    d = degrees(n, edges, active)
    return [x > 0 for x in d]


def no_two_adjacent(n, edges, active):
    return not any(active[u] and active[v] for u, v in edges)


def division_ok(n, edges, labels, k, roots=None, allow_empty=False):
    """every label class induces a connected subgraph; every label used unless allow_empty;
    roots[i] = r  =>  label(r) = i"""
    for lab in range(k):
        cls = [x == lab for x in labels]
        if not any(cls):
            if not allow_empty:
                return False
            continue
        if components(n, edges, cls)[1] != 1:
            return False
    if roots is not None:
        for i, r in enumerate(roots):
            if r is not None and labels[r] != i:
                return False
    return True


def partition_blocks(n, same):
    """blocks of the equivalence `same` given as a label list"""
    blocks = {}
    for v in range(n):
        blocks.setdefault(same[v], []).append(v)
    return list(blocks.values())


def set_partitions(n):
    """all set partitions of range(n) as restricted growth strings (label lists)"""
    def rec(i, labels, mx):
        if i == n:
            yield list(labels)
            return
        for lab in range(mx + 2):
            labels.append(lab)
            yield from rec(i + 1, labels, max(mx, lab))
            labels.pop()
    if n == 0:
        yield []
    else:
        yield from rec(0, [], -1)


def blocks_valid(n, edges, labels, sizes):
    """every block connected and every vertex with a size lies in a block of that size"""
    cnt = {}
    for x in labels:
        cnt[x] = cnt.get(x, 0) + 1
    for lab in cnt:
        cls = [x == lab for x in labels]
        if components(n, edges, cls)[1] != 1:
            return False
    for v in range(n):
        if sizes[v] is not None and cnt[labels[v]] != sizes[v]:
            return False
    return True


def borders_valid(n, edges, borders, sizes):
    kept = [e for e, b in zip(edges, borders) if not b]
    label, c = components(n, kept)
    for (u, v), b in zip(edges, borders):
        if b and label[u] == label[v]:
            return False
    cnt = [0] * c
    for x in label:
        cnt[x] += 1
    return all(sizes[v] is None or cnt[label[v]] == sizes[v] for v in range(n))


# ------------------------------------------------------------------ enumerators
def all_simple_graphs(n):
    pairs = [(u, v) for u in range(n) for v in range(u + 1, n)]
    for mask in range(1 << len(pairs)):
        yield [pairs[i] for i in range(len(pairs)) if mask >> i & 1]


def grid_edges(h, w):
    """reference grid graph: vertex y*w+x, orthogonal neighbours"""
    e = []
    for y in range(h):
        for x in range(w):
            if x + 1 < w:
                e.append((y * w + x, y * w + x + 1))
            if y + 1 < h:
                e.append((y * w + x, (y + 1) * w + x))
    return e


def patterns(n):
    return itertools.product((False, True), repeat=n)
