"""Reference semantics, independent of cspuz' backends.

An expression of cspuz is read through its public data model only (e.op, e.operands,
BoolVar.id, IntVar.id/lo/hi, Python literals) into a private AST of nested tuples:

    ("b", id) ("i", id) ("lit", value) ("none",) (OPNAME, child, ...)

and evaluated under an assignment {id: value} with the ordinary meaning of the operators.
"""

import itertools


class MalformedAtom(ValueError):
    """a native graph atom whose operand layout is not  n m <n items> <2m endpoints> [<m flags>]"""


def from_cspuz(e):
    from cspuz.expr import BoolVar, Expr, IntVar

    if e is None:
        return ("none",)
    if isinstance(e, (bool, int)):
        return ("lit", e)
    if isinstance(e, BoolVar):
        return ("b", e.id)
    if isinstance(e, IntVar):
        return ("i", e.id)
    if not isinstance(e, Expr):
        raise TypeError("not an expression: %r" % (e,))
    op = e.op.name
    if op in ("BOOL_CONSTANT", "INT_CONSTANT"):
        return ("lit", e.operands[0])
    return (op,) + tuple(from_cspuz(x) for x in e.operands)


def decls_of(variables):
    """-> list of ("b", id) / ("i", id, lo, hi) for a Solver's variables."""
    from cspuz.expr import BoolVar

    out = []
    for v in variables:
        if isinstance(v, BoolVar):
            out.append(("b", v.id))
        else:
            out.append(("i", v.id, v.lo, v.hi))
    return out


# ------------------------------------------------------------------ graph predicates
def connected_components(n, edges, alive):
    """components (as a label list, -1 for dead vertices) of the subgraph induced by `alive`."""
    adj = [[] for _ in range(n)]
    for u, v in edges:
        if alive[u] and alive[v]:
            adj[u].append(v)
            adj[v].append(u)
    label = [-1] * n
    c = 0
    for s in range(n):
        if alive[s] and label[s] < 0:
            label[s] = c
            stack = [s]
            while stack:
                u = stack.pop()
                for v in adj[u]:
                    if label[v] < 0:
                        label[v] = c
                        stack.append(v)
            c += 1
    return label, c


def active_vertices_connected(n, edges, active):
    _, c = connected_components(n, edges, active)
    return c <= 1


def graph_division(n, edges, sizes, borders):
    """Cutting the edges whose border flag is true leaves components such that every cut edge
    joins two different components and every vertex with a size lies in a component of that size.
    """
    kept = [e for e, b in zip(edges, borders) if not b]
    label, c = connected_components(n, kept, [True] * n)
    for (u, v), b in zip(edges, borders):
        if b and label[u] == label[v]:
            return False
    cnt = [0] * c
    for x in label:
        cnt[x] += 1
    for v in range(n):
        if sizes[v] is not None and cnt[label[v]] != sizes[v]:
            return False
    return True


# ------------------------------------------------------------------ evaluation
def ev(node, asg):
    t = node[0]
    if t == "lit":
        return node[1]
    if t == "b" or t == "i":
        return asg[node[1]]
    if t == "none":
        return None
    if t == "NEG":
        return -ev(node[1], asg)
    if t == "ADD":
        if len(node) < 2:
            raise ValueError("ADD of nothing")
        return sum(ev(x, asg) for x in node[1:])
    if t == "SUB":
        if len(node) < 3:
            raise ValueError("SUB needs >= 2 operands")
        r = ev(node[1], asg)
        for x in node[2:]:
            r -= ev(x, asg)
        return r
    if t in ("EQ", "NE", "LE", "LT", "GE", "GT"):
        a = ev(node[1], asg)
        b = ev(node[2], asg)
        return {"EQ": a == b, "NE": a != b, "LE": a <= b, "LT": a < b, "GE": a >= b,
                "GT": a > b}[t]
    if t == "NOT":
        return not ev(node[1], asg)
    if t == "AND":
        return all(ev(x, asg) for x in node[1:])
    if t == "OR":
        return any(ev(x, asg) for x in node[1:])
    if t == "IFF":
        return bool(ev(node[1], asg)) == bool(ev(node[2], asg))
    if t == "XOR":
        return bool(ev(node[1], asg)) != bool(ev(node[2], asg))
    if t == "IMP":
        return (not ev(node[1], asg)) or bool(ev(node[2], asg))
    if t == "IF":
        return ev(node[2], asg) if ev(node[1], asg) else ev(node[3], asg)
    if t == "ALLDIFF":
        vals = [ev(x, asg) for x in node[1:]]
        return len(set(vals)) == len(vals)
    if t == "GRAPH_ACTIVE_VERTICES_CONNECTED":
        n, m = node[1][1], node[2][1]
        act = [bool(ev(x, asg)) for x in node[3:3 + n]]
        flat = [ev(x, asg) for x in node[3 + n:]]
        if len(flat) != 2 * m or len(act) != n:
            raise MalformedAtom("malformed graph atom")
        edges = [(flat[2 * k], flat[2 * k + 1]) for k in range(m)]
        if any(not (isinstance(x, int) and 0 <= x < n) for x in flat):
            raise MalformedAtom("edge endpoint out of range")
        return active_vertices_connected(n, edges, act)
    if t == "GRAPH_DIVISION":
        n, m = node[1][1], node[2][1]
        sizes = [ev(x, asg) for x in node[3:3 + n]]
        flat = [ev(x, asg) for x in node[3 + n:3 + n + 2 * m]]
        borders = [bool(ev(x, asg)) for x in node[3 + n + 2 * m:]]
        if len(flat) != 2 * m or len(borders) != m:
            raise MalformedAtom("malformed graph atom")
        edges = [(flat[2 * k], flat[2 * k + 1]) for k in range(m)]
        if any(not (isinstance(x, int) and 0 <= x < n) for x in flat):
            raise MalformedAtom("edge endpoint out of range")
        return graph_division(n, edges, sizes, borders)
    raise ValueError("unknown node %r" % (t,))


def domain(decl):
    if decl[0] == "b":
        return (False, True)
    return range(decl[2], decl[3] + 1)


def domain_product(decls):
    p = 1
    for d in decls:
        p *= len(domain(d))
    return p


def models(decls, constraints, limit=None):
    """Generator over all assignments {id: value} that satisfy every constraint node."""
    ids = [d[1] for d in decls]
    doms = [domain(d) for d in decls]
    k = 0
    for vals in itertools.product(*doms):
        asg = dict(zip(ids, vals))
        if all(ev(c, asg) for c in constraints):
            yield asg
            k += 1
            if limit is not None and k >= limit:
                return


def free_ids(node, acc=None):
    if acc is None:
        acc = set()
    if node[0] in ("b", "i"):
        acc.add(node[1])
    elif node[0] not in ("lit", "none"):
        for x in node[1:]:
            free_ids(x, acc)
    return acc
