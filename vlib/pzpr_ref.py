"""Independent decoder of the pzpr / puzz.link URL body encodings used by the listed puzzles,
written from the format (DESIGN.md Appendix B), not from cspuz' codecs.

Cell values returned by the low-level decoders: None = empty cell, "?" = the '.' marker, ints.
"""

B36 = "0123456789abcdefghijklmnopqrstuvwxyz"


class FormatError(Exception):
    pass


def split_url(url):
    """-> (name, cols, rows, [remaining '/'-separated parts]) without regular expressions"""
    q = url.find("?")
    if q < 0:
        raise FormatError("no '?' in url")
    head = url[:q]
    if not (head.endswith("/p") or head.endswith("/p.html")):
        raise FormatError("not a /p? or /p.html? url")
    if not (head.startswith("http://") or head.startswith("https://")):
        raise FormatError("scheme")
    parts = url[q + 1:].split("/")
    if len(parts) < 4:
        raise FormatError("too few parts")
    name, cols, rows = parts[0], parts[1], parts[2]
    if not (cols.isdigit() and rows.isdigit() and cols.isascii() and rows.isascii()):
        raise FormatError("dimensions")
    return name, int(cols), int(rows), parts[3:]


def v36(c):
    i = B36.find(c)
    if i < 0:
        raise FormatError("not base36: %r" % c)
    return i


def hexv(s):
    if not s or any(c not in "0123456789abcdef" for c in s):
        raise FormatError("not hex: %r" % s)
    return int(s, 16)


def dec_number16(body, ncells, pos=0):
    """number16: hex digit | -hh | +hhh | . | g..z (1..20 empties) -> (cells, newpos)"""
    cells = []
    while len(cells) < ncells:
        if pos >= len(body):
            raise FormatError("body too short")
        c = body[pos]
        if c == "-":
            cells.append(hexv(body[pos + 1:pos + 3]) if len(body) >= pos + 3 else _short())
            pos += 3
        elif c == "+":
            cells.append(hexv(body[pos + 1:pos + 4]) if len(body) >= pos + 4 else _short())
            pos += 4
        elif c == ".":
            cells.append("?")
            pos += 1
        elif c in "0123456789abcdef":
            cells.append(int(c, 16))
            pos += 1
        elif "g" <= c <= "z":
            cells += [None] * (v36(c) - 15)
            pos += 1
        else:
            raise FormatError("bad char %r" % c)
    return cells[:ncells], pos


def _short():
    raise FormatError("body too short")


def dec_4cell(body, ncells):
    """slither: 0-4 clue; 5-9 clue-5 + 1 empty; a-e clue-10 + 2 empties; g-z 1..20 empties; '.' = ?"""
    cells = []
    pos = 0
    while len(cells) < ncells:
        if pos >= len(body):
            raise FormatError("body too short")
        c = body[pos]
        pos += 1
        if c == ".":
            cells.append("?")
        elif "0" <= c <= "4":
            cells.append(int(c))
        elif "5" <= c <= "9":
            cells += [int(c) - 5, None]
        elif "a" <= c <= "e":
            cells += [v36(c) - 10, None, None]
        elif "g" <= c <= "z":
            cells += [None] * (v36(c) - 15)
        else:
            raise FormatError("bad char %r" % c)
    return cells[:ncells], pos


def dec_circle3(body, ncells):
    """masyu: one base-36 character (0..26) per three cells, value = 9a + 3b + c"""
    cells = []
    pos = 0
    while len(cells) < ncells:
        if pos >= len(body):
            raise FormatError("body too short")
        v = v36(body[pos])
        pos += 1
        if v > 26:
            raise FormatError("circle value > 26")
        cells += [v // 9, (v // 3) % 3, v % 3]
    return cells[:ncells], pos


def dec_arrow16(body, ncells):
    """yajilin: d n (d 0..4, n hex digit or '.'); d+5 hh; a..z skip 1..26 -> (dir, number)"""
    cells = []
    pos = 0
    while len(cells) < ncells:
        if pos >= len(body):
            raise FormatError("body too short")
        c = body[pos]
        if "0" <= c <= "4":
            if pos + 1 >= len(body):
                _short()
            n = body[pos + 1]
            cells.append((int(c), "?" if n == "." else hexv(n)))
            pos += 2
        elif "5" <= c <= "9":
            if pos + 2 >= len(body):
                _short()
            cells.append((int(c) - 5, hexv(body[pos + 1:pos + 3])))
            pos += 3
        elif "a" <= c <= "z":
            cells += [None] * (v36(c) - 9)
            pos += 1
        else:
            raise FormatError("bad char %r" % c)
    return cells[:ncells], pos


def dec_bits(body, nbits, pos):
    bits = []
    nchar = (nbits + 4) // 5
    if pos + nchar > len(body):
        _short()
    for c in body[pos:pos + nchar]:
        v = v36(c)
        if v >= 32:
            raise FormatError("border char >= 32")
        bits += [(v >> (4 - j)) & 1 for j in range(5)]
    return bits[:nbits], pos + nchar


def dec_border(body, rows, cols, pos=0):
    """vertical borders rows x (cols-1) row-major, then horizontal borders (rows-1) x cols,
    5 bits per base-32 character, MSB first, each block padded separately"""
    vb, pos = dec_bits(body, rows * (cols - 1), pos)
    hb, pos = dec_bits(body, (rows - 1) * cols, pos)
    vert = [vb[y * (cols - 1):(y + 1) * (cols - 1)] for y in range(rows)]
    horiz = [hb[y * cols:(y + 1) * cols] for y in range(rows - 1)]
    return vert, horiz, pos


def rooms_from_border(rows, cols, vert, horiz):
    """rooms (sorted cells) in order of their first cell in row-major order"""
    rid = [[-1] * cols for _ in range(rows)]
    rooms = []
    for y0 in range(rows):
        for x0 in range(cols):
            if rid[y0][x0] >= 0:
                continue
            k = len(rooms)
            rid[y0][x0] = k
            stack = [(y0, x0)]
            cells = []
            while stack:
                y, x = stack.pop()
                cells.append((y, x))
                nb = []
                if y > 0 and not horiz[y - 1][x]:
                    nb.append((y - 1, x))
                if y + 1 < rows and not horiz[y][x]:
                    nb.append((y + 1, x))
                if x > 0 and not vert[y][x - 1]:
                    nb.append((y, x - 1))
                if x + 1 < cols and not vert[y][x]:
                    nb.append((y, x + 1))
                for p in nb:
                    if rid[p[0]][p[1]] < 0:
                        rid[p[0]][p[1]] = k
                        stack.append(p)
            rooms.append(sorted(cells))
    return rooms


def grid(cells, rows, cols):
    return [cells[y * cols:(y + 1) * cols] for y in range(rows)]


# ------------------------------------------------------------------ per-puzzle readers
def read(url):
    """-> (name, rows, cols, problem in a neutral form) for the supported puzzle names"""
    name, cols, rows, parts = split_url(url)
    n = rows * cols
    body = parts[0]
    if name == "nurikabe":
        cells, pos = dec_number16(body, n)
        prob = grid([0 if c is None else -1 if c == "?" else c for c in cells], rows, cols)
    elif name == "sudoku":
        cells, pos = dec_number16(body, n)
        prob = grid([0 if c is None else c for c in cells], rows, cols)
    elif name == "nurimisaki":
        cells, pos = dec_number16(body, n)
        prob = grid([-1 if c is None else 0 if c == "?" else c for c in cells], rows, cols)
    elif name == "slither":
        cells, pos = dec_4cell(body, n)
        prob = grid([-1 if c is None else c for c in cells], rows, cols)
    elif name in ("masyu", "mashu"):
        cells, pos = dec_circle3(body, n)
        prob = grid(cells, rows, cols)
    elif name == "yajilin":
        cells, pos = dec_arrow16(body, n)
        out = []
        for c in cells:
            if c is None:
                out.append("..")
            elif c[0] == 0 or c[1] == "?":
                out.append("??")
            else:
                out.append("%s%d" % ({1: "^", 2: "v", 3: "<", 4: ">"}[c[0]], c[1]))
        prob = grid(out, rows, cols)
    elif name in ("lits", "norinori"):
        vert, horiz, pos = dec_border(body, rows, cols)
        prob = rooms_from_border(rows, cols, vert, horiz)
    elif name == "heyawake":
        vert, horiz, pos = dec_border(body, rows, cols)
        rooms = rooms_from_border(rows, cols, vert, horiz)
        nums, pos = dec_number16(body, len(rooms), pos)
        prob = (rooms, [-1 if c is None else c for c in nums])
    elif name == "compass":
        cells = []
        pos = 0
        out = []
        cell = 0
        while pos < len(body):
            c = body[pos]
            if "g" <= c <= "z":
                cell += v36(c) - 15
                pos += 1
                continue
            vals, pos = dec_number16(body, 4, pos)
            if any(v is None for v in vals):
                raise FormatError("gap inside a compass")
            u, d, l, r = [-1 if v == "?" else v for v in vals]
            out.append((cell // cols, cell % cols, u, l, d, r))
            cell += 1
        if cell > n:
            raise FormatError("too many cells")
        prob = sorted(out)
    elif name == "starbattle":
        k = int(parts[0])
        body = parts[1]
        vert, horiz, pos = dec_border(body, rows, cols)
        prob = (k, rooms_from_border(rows, cols, vert, horiz))
    elif name == "aquarium":
        vert, horiz, pos = dec_border(body, rows, cols)
        rooms = rooms_from_border(rows, cols, vert, horiz)
        if pos != len(body):
            raise FormatError("trailing characters after the border block")
        nums, pos2 = dec_number16(parts[1], cols + rows)
        nums = [-1 if c is None else c for c in nums]
        prob = (rooms, nums[cols:], nums[:cols])  # (rooms, row clues, column clues)
        body = parts[1]
        pos = pos2
    else:
        raise FormatError("unsupported puzzle %r" % name)
    if pos != len(body):
        raise FormatError("trailing characters: %r" % body[pos:])
    return name, rows, cols, prob
