"""Common machinery of the /verif checks: statistics, failure buckets, evidence, replay files,
known findings, Hypothesis driver with collect-then-classify, sharding over processes.

Exit codes (run.py): 0 held, 1 violation (a line `VIOLATION property=<id> replay=<path>` was
printed), 2 harness error / inconclusive (never a VIOLATION line).
"""

import hashlib
import json
import os
import sys
import time
import traceback
from collections import Counter

VERIF = os.path.dirname(os.path.dirname(os.path.abspath(__file__)))
REPO = os.environ.get("VERIF_REPO", "/repo")
# mutation-testing runs redirect their outputs so that the committed evidence is untouched
OUT = os.environ.get("VERIF_OUT_DIR", VERIF)


class Failure(Exception):
    """Raised by a property body when the oracle is contradicted.

    sig: root-cause signature (short string, stable across runs), used for bucketing and for
    matching known findings.  observed / expected are plain data for the replay file.
    """

    def __init__(self, sig, observed=None, expected=None, detail=None):
        super().__init__(sig)
        self.sig = sig
        self.observed = observed
        self.expected = expected
        self.detail = detail


class HarnessError(Exception):
    """Something is wrong with the check itself (oracle exception, vacuous generator ...)."""


def canon_hash(obj):
    s = json.dumps(obj, sort_keys=True, default=repr, separators=(",", ":"))
    return int.from_bytes(hashlib.blake2b(s.encode(), digest_size=8).digest(), "big")


def repo_frame_sig(exc):
    """(type, innermost frame inside the repository) of an exception -> signature string."""
    tb = traceback.extract_tb(exc.__traceback__)
    inner = None
    for fr in tb:
        fn = os.path.abspath(fr.filename)
        if fn.startswith(os.path.abspath(REPO) + os.sep) or "/cspuz/" in fn:
            inner = fr
    if inner is None:
        return "%s@<outside-repo>" % type(exc).__name__
    rel = inner.filename.split("/cspuz/")[-1] if "/cspuz/" in inner.filename else inner.filename
    return "%s@%s:%s" % (type(exc).__name__, rel, inner.name)


def blame(exc):
    """who raised?  Walk the traceback from the innermost frame outwards, skipping library frames
    (site-packages, the standard library): 'repo' if the first remaining frame is in the repository,
    'harness' if it is in /verif (my own code, e.g. an oracle or a callback), else 'unknown'."""
    repo = os.path.abspath(REPO) + os.sep
    verif = os.path.abspath(VERIF) + os.sep
    for fr in reversed(traceback.extract_tb(exc.__traceback__)):
        fn = os.path.abspath(fr.filename)
        if fn.startswith(repo):
            return "repo"
        if fn.startswith(verif):
            return "harness"
    return "unknown"


class Stats:
    """Mergeable per-process statistics."""

    def __init__(self):
        self.evaluations = 0
        self.nt_hashes = set()
        self.nt_counted = 0  # non-trivial cases that are distinct by construction (enumerations)
        self.classes = Counter()
        self.samples = []
        self.failures = {}  # sig -> dict(count, case, observed, expected, detail, check)
        self.extra = {}
        self.max_samples = 8

    def case(self, canon=None, nontrivial=False, classes=(), sample=None, counted=False):
        self.evaluations += 1
        for c in classes:
            self.classes[c] += 1
        if nontrivial:
            if counted:
                self.nt_counted += 1
            else:
                self.nt_hashes.add(canon_hash(canon))
            if sample is not None and len(self.samples) < self.max_samples:
                n = self.evaluations
                # keep the first two and then exponentially spaced ones
                if len(self.samples) < 2 or (n & (n - 1)) == 0:
                    self.samples.append(sample)

    def fail(self, f, case, check=None):
        d = self.failures.get(f.sig)
        if d is None:
            self.failures[f.sig] = dict(
                count=1,
                case=case,
                observed=f.observed,
                expected=f.expected,
                detail=f.detail,
                check=check,
            )
        else:
            d["count"] += 1
            # keep the smallest case (by serialized length) as representative
            try:
                if len(json.dumps(case, default=repr)) < len(json.dumps(d["case"], default=repr)):
                    d.update(case=case, observed=f.observed, expected=f.expected, detail=f.detail)
            except Exception:
                pass

    def merge(self, other):
        self.evaluations += other.evaluations
        self.nt_hashes |= other.nt_hashes
        self.nt_counted += other.nt_counted
        self.classes.update(other.classes)
        for s in other.samples:
            if len(self.samples) < self.max_samples * 2:
                self.samples.append(s)
        for sig, d in other.failures.items():
            mine = self.failures.get(sig)
            if mine is None:
                self.failures[sig] = d
            else:
                mine["count"] += d["count"]
        for k, v in other.extra.items():
            if isinstance(v, (int, float)) and isinstance(self.extra.get(k), (int, float)):
                self.extra[k] += v
            elif isinstance(v, list) and isinstance(self.extra.get(k), list):
                self.extra[k] += v
            elif k not in self.extra:
                self.extra[k] = v

    def merge_counts(self, other):
        """merge everything but the failure buckets (used when a sub-enumeration runs inside a
        Hypothesis body that re-raises its first failure itself)"""
        saved = other.failures
        other.failures = {}
        try:
            self.merge(other)
        finally:
            other.failures = saved

    @property
    def distinct_nontrivial(self):
        return len(self.nt_hashes) + self.nt_counted


def load_findings(pid):
    path = os.path.join(VERIF, "known_findings.json")
    if not os.path.exists(path):
        return []
    with open(path) as f:
        data = json.load(f)
    return [e for e in data.get("findings", []) if e.get("property") == pid]


class Ctx:
    def __init__(self, pid, tier, seed, level="exploration"):
        self.pid = pid
        self.tier = tier
        self.seed = seed
        self.level = level
        self.t0 = time.time()
        self.stats = Stats()
        self.rule = ""
        self.assumptions = []
        self.floors = []  # (description, ok)
        self.exhaustive = False
        findings = load_findings(pid)
        self.known_open = {e["signature"]: e for e in findings if e.get("status") == "open"}
        self.notes = []

    # convenience passthroughs
    def quick(self):
        return self.tier == "quick"

    def pick(self, quick, thorough):
        return quick if self.tier == "quick" else thorough

    def floor(self, name, value, minimum):
        ok = value >= minimum
        self.floors.append(dict(name=name, value=value, minimum=minimum, ok=ok))
        return ok

    def finish(self):
        """Write evidence, print verdict lines, return exit code."""
        st = self.stats
        wall = time.time() - self.t0
        violations = []
        known_hits = []
        for sig, d in sorted(st.failures.items()):
            if sig in self.known_open:
                known_hits.append((sig, d))
            else:
                violations.append((sig, d))
        hit = {sig: d["count"] for sig, d in known_hits}
        for sig, e in sorted(self.known_open.items()):
            # one line per listed open finding, whether or not this run happened to generate it
            print(
                "KNOWN-FINDING: property=%s %s (%d cases this run; signature %s)"
                % (self.pid, e.get("what", sig), hit.get(sig, 0), sig)
            )
        replay_paths = []
        for sig, d in violations:
            h = hashlib.blake2b(sig.encode(), digest_size=4).hexdigest()
            path = os.path.join(OUT, "replays", "%s-%s.json" % (self.pid, h))
            os.makedirs(os.path.dirname(path), exist_ok=True)
            with open(path, "w") as f:
                json.dump(
                    dict(
                        property=self.pid,
                        check=d.get("check"),
                        signature=sig,
                        case=d["case"],
                        observed=d["observed"],
                        expected=d["expected"],
                        detail=d.get("detail"),
                        count_this_run=d["count"],
                    ),
                    f,
                    indent=1,
                    default=repr,
                )
            replay_paths.append(path)
            print("VIOLATION property=%s replay=%s" % (self.pid, path))
            print("  signature: %s" % sig)
            print("  case: %s" % json.dumps(d["case"], default=repr)[:600])
            print("  observed: %s" % json.dumps(d["observed"], default=repr)[:300])
            print("  expected: %s" % json.dumps(d["expected"], default=repr)[:300])
        floors_ok = all(f["ok"] for f in self.floors)
        cov = dict(
            evaluations=st.evaluations,
            distinct_nontrivial=st.distinct_nontrivial,
            rule=self.rule,
            samples=st.samples[:12],
            classes=dict(sorted(st.classes.items())),
            floors=self.floors,
            exhaustive=bool(self.exhaustive),
            known_finding_hits={sig: d["count"] for sig, d in known_hits},
        )
        cov.update(st.extra)
        if self.notes:
            cov["notes"] = self.notes
        ev = dict(
            property_id=self.pid,
            tier=self.tier,
            seed=self.seed,
            level=self.level,
            coverage=cov,
            assumptions=self.assumptions,
            wall_s=round(wall, 2),
            violations=len(violations),
        )
        os.makedirs(os.path.join(OUT, "evidence"), exist_ok=True)
        with open(os.path.join(OUT, "evidence", "%s.json" % self.pid), "w") as f:
            json.dump(ev, f, indent=1, default=repr)
            f.write("\n")
        print(
            "%s tier=%s seed=%d evaluations=%d distinct_nontrivial=%d violations=%d known=%d wall=%.1fs"
            % (
                self.pid,
                self.tier,
                self.seed,
                st.evaluations,
                st.distinct_nontrivial,
                len(violations),
                len(known_hits),
                wall,
            )
        )
        if violations:
            return 1
        if not floors_ok:
            bad = [f for f in self.floors if not f["ok"]]
            print("HARNESS: coverage floor(s) not met: %s" % json.dumps(bad))
            return 2
        if st.evaluations < 1 or st.distinct_nontrivial < 2:
            print("HARNESS: vacuous run (no non-trivial cases)")
            return 2
        return 0


# ---------------------------------------------------------------------------------------------
# Running a property body


def run_case(stats, body, case, check=None, known=()):
    """Run body(case); Failure -> recorded in stats.  Returns the signature or None.

    Any other exception is a harness error and propagates."""
    try:
        body(case)
        return None
    except Failure as f:
        stats.fail(f, case, check)
        return f.sig


def hyp_search(stats, strategy, body, *, seed, max_examples, check, known=(), rounds=4,
               shrink=True, step_count=None, round_floor=50):
    """Drive `body` (raising Failure on violation) with Hypothesis.

    collect-then-classify: signatures in `known` (known findings) and signatures already
    found in an earlier round are recorded but do not stop the search, so one shallow root
    cause cannot hide the ones behind it.  Every new signature is shrunk by Hypothesis and the
    minimal case is what ends up in stats.failures.
    """
    import hypothesis
    from hypothesis import HealthCheck, Phase, given, settings

    suppressed = set(known)
    phases = [Phase.explicit, Phase.generate] + ([Phase.shrink] if shrink else [])
    for rnd in range(rounds):
        last = {}

        @hypothesis.seed(seed * 101 + rnd)
        @settings(
            max_examples=max_examples,
            deadline=None,
            database=None,
            report_multiple_bugs=False,
            derandomize=False,
            phases=phases,
            suppress_health_check=list(HealthCheck),
            print_blob=False,
        )
        @given(strategy)
        def prop(case):
            try:
                try:
                    body(case)
                except Failure:
                    raise
                except (KeyboardInterrupt, SystemExit, MemoryError):
                    raise
                except Exception as e:
                    # an exception that the code under test raised and the check did not anticipate is a
                    # failure of the code under test, not of the harness; my own exceptions stay exit 2
                    if blame(e) != "repo":
                        raise
                    raise Failure("exception|" + repo_frame_sig(e),
                                  observed="%s: %s" % (type(e).__name__, str(e)[:160]))
            except Failure as f:
                if f.sig in suppressed:
                    stats.fail(f, case, check)
                    return
                last["f"] = f
                last["case"] = case
                raise

        try:
            prop()
            return
        except Failure as f:
            # Hypothesis re-raises from the minimal example, which was the last one executed
            ff = last.get("f", f)
            # a fresh record for the shrunk case: drop the non-minimal representatives
            stats.failures.pop(ff.sig, None)
            stats.fail(ff, last.get("case"), check)
            suppressed.add(ff.sig)
        except hypothesis.errors.Flaky as e:
            # the code under test answered differently on a re-run of the same case (e.g. the
            # solver returned another model).  The failure that was observed is still a genuine
            # counterexample against a deterministic oracle; keep it, unshrunk.
            if "f" not in last:
                raise HarnessError("flaky property body in %s: %s" % (check, e))
            ff = last["f"]
            ff.detail = "non-deterministic under re-execution (Hypothesis Flaky); case not fully shrunk"
            stats.fail(ff, last.get("case"), check)
            suppressed.add(ff.sig)
        max_examples = max(round_floor, max_examples // 2)


def pmap(func, args_list, procs=None):
    """Run func over args in worker processes (fork); returns results in order.

    func must return picklable data (e.g. Stats)."""
    import multiprocessing as mp

    procs = procs or min(16, os.cpu_count() or 1, max(1, len(args_list)))
    if procs <= 1 or len(args_list) <= 1:
        return [func(a) for a in args_list]
    ctx = mp.get_context("fork")
    with ctx.Pool(procs) as pool:
        return pool.map(func, args_list, chunksize=1)


def setup_repo_import():
    """Make `import cspuz` resolve to the working tree of the repository."""
    repo = os.path.abspath(REPO)
    if repo not in sys.path:
        sys.path.insert(0, repo)
    import cspuz  # noqa

    f = os.path.abspath(cspuz.__file__)
    if not f.startswith(repo + os.sep):
        raise HarnessError("cspuz imported from %s, not from %s" % (f, repo))
