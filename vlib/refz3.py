"""Independent decision procedure for refsem ASTs, built on z3 but sharing nothing with
cspuz/backend/z3.py.  Offers sat checks under assumptions, incremental AllSAT on a
projection, and a CEGAR loop for the two native graph atoms (atom -> fresh Boolean; after
each model the operand values are read back, the true value of the atom is computed by
refsem, and a lemma is added when they differ).
"""

import random

import z3

from . import refsem


class RefSolver:
    def __init__(self, decls, constraints=()):
        self.ctx = z3.Context()
        self.s = z3.Solver(ctx=self.ctx)
        self.vars = {}
        self.decls = list(decls)
        self.atoms = []  # (fresh bool, node)
        self.cegar_iterations = 0
        for d in self.decls:
            self._declare(d)
        for c in constraints:
            self.add(c)

    def _declare(self, d):
        if d[0] == "b":
            self.vars[d[1]] = z3.Bool("rb%d" % d[1], self.ctx)
        else:
            v = z3.Int("ri%d" % d[1], self.ctx)
            self.vars[d[1]] = v
            self.s.add(v >= d[2], v <= d[3])

    def declare(self, d):
        self.decls.append(d)
        self._declare(d)

    # -------------------------------------------------------------- translation
    def tr(self, node):
        t = node[0]
        c = self.ctx
        if t == "lit":
            v = node[1]
            if isinstance(v, bool):
                return z3.BoolVal(v, c)
            return z3.IntVal(v, c)
        if t in ("b", "i"):
            return self.vars[node[1]]
        if t == "NEG":
            return -self.tr(node[1])
        if t == "ADD":
            xs = [self.tr(x) for x in node[1:]]
            return z3.Sum(xs) if len(xs) > 1 else xs[0]
        if t == "SUB":
            xs = [self.tr(x) for x in node[1:]]
            r = xs[0]
            for x in xs[1:]:
                r = r - x
            return r
        if t in ("EQ", "NE", "LE", "LT", "GE", "GT"):
            a = self.tr(node[1])
            b = self.tr(node[2])
            return {"EQ": a == b, "NE": a != b, "LE": a <= b, "LT": a < b, "GE": a >= b,
                    "GT": a > b}[t]
        if t == "NOT":
            return z3.Not(self.tr(node[1]), c)
        if t == "AND":
            xs = [self.tr(x) for x in node[1:]]
            return z3.And(xs + [z3.BoolVal(True, c)])
        if t == "OR":
            xs = [self.tr(x) for x in node[1:]]
            return z3.Or(xs + [z3.BoolVal(False, c)])
        if t == "IFF":
            return self.tr(node[1]) == self.tr(node[2])
        if t == "XOR":
            return z3.Xor(self.tr(node[1]), self.tr(node[2]))
        if t == "IMP":
            return z3.Implies(self.tr(node[1]), self.tr(node[2]))
        if t == "IF":
            return z3.If(self.tr(node[1]), self.tr(node[2]), self.tr(node[3]))
        if t == "ALLDIFF":
            xs = [self.tr(x) for x in node[1:]]
            if len(xs) < 2:
                return z3.BoolVal(True, c)
            return z3.Distinct(xs)
        if t in ("GRAPH_ACTIVE_VERTICES_CONNECTED", "GRAPH_DIVISION"):
            g = z3.Bool("atom%d" % len(self.atoms), c)
            self.atoms.append((g, node, self._atom_operands(node)))
            return g
        raise ValueError("unknown node %r" % (t,))

    def _atom_operands(self, node):
        """z3 terms of the non-constant operands of a graph atom: list of (index, term)."""
        out = []
        for k, x in enumerate(node[1:], start=1):
            if x[0] not in ("lit", "none"):
                out.append((k, self.tr(x)))
        return out

    def add(self, node):
        self.s.add(self.tr(node))

    # -------------------------------------------------------------- solving
    def _refine(self, model):
        """returns True when a lemma was added (model was spurious)."""
        added = False
        for g, node, ops in self.atoms:
            vals = {}
            for k, term in ops:
                v = model.eval(term, model_completion=True)
                vals[k] = z3.is_true(v) if z3.is_bool(term) else v.as_long()
            ground = (node[0],) + tuple(
                ("lit", vals[k]) if k in vals else x for k, x in enumerate(node[1:], start=1))
            truth = refsem.ev(ground, {})
            gval = z3.is_true(model.eval(g, model_completion=True))
            if truth != gval:
                eqs = [(term == vals[k]) if not z3.is_bool(term) else (term if vals[k] else z3.Not(term))
                       for k, term in ops]
                self.s.add(z3.Implies(z3.And(eqs + [z3.BoolVal(True, self.ctx)]), g == truth))
                if node[0] == "GRAPH_ACTIVE_VERTICES_CONNECTED" and not truth:
                    self._cut_lemma(g, node, ops, vals)
                added = True
        return added

    def _cut_lemma(self, g, node, ops, vals):
        n, m = node[1][1], node[2][1]
        terms = dict(ops)
        act = []
        for k in range(3, 3 + n):
            x = node[k]
            act.append(vals[k] if k in vals else bool(x[1]))
        flat = [x[1] for x in node[3 + n:]]
        edges = [(flat[2 * i], flat[2 * i + 1]) for i in range(m)]
        label, c = refsem.connected_components(n, edges, act)
        if c < 2:
            return

        def lit(v):
            k = 3 + v
            if k in terms:
                return terms[k]
            return z3.BoolVal(bool(node[k][1]), self.ctx)

        # for each active component C: g & (some u in C active) & (some w outside C active)
        #   -> some vertex of the boundary of C is active
        for comp in range(min(c, 2)):
            C = {v for v in range(n) if label[v] == comp}
            boundary = set()
            for u, v in edges:
                if u in C and v not in C:
                    boundary.add(v)
                if v in C and u not in C:
                    boundary.add(u)
            u = min(C)
            w = min(v for v in range(n) if act[v] and v not in C)
            self.s.add(z3.Implies(z3.And(g, lit(u), lit(w)),
                                  z3.Or([lit(x) for x in boundary] + [z3.BoolVal(False, self.ctx)])))

    def check(self, assumptions=()):
        """-> model (z3) or None"""
        ass = [self.tr(a) for a in assumptions]
        while True:
            r = self.s.check(*ass)
            if r == z3.unsat:
                return None
            if r != z3.sat:
                raise RuntimeError("z3 returned %s" % r)
            m = self.s.model()
            self.cegar_iterations += 1
            if not self.atoms or not self._refine(m):
                return m

    def sat(self, assumptions=()):
        return self.check(assumptions) is not None

    def check_fixed(self, ids, values, extra=()):
        """model or None under the assumptions var[id] = value (bools as literals, ints as
        equalities); `extra` are additional z3 terms."""
        ass = []
        for vid, val in zip(ids, values):
            term = self.vars[vid]
            if z3.is_bool(term):
                ass.append(term if val else z3.Not(term))
            else:
                ass.append(term == val)
        ass += list(extra)
        while True:
            r = self.s.check(*ass)
            if r == z3.unsat:
                return None
            if r != z3.sat:
                raise RuntimeError("z3 returned %s" % r)
            m = self.s.model()
            self.cegar_iterations += 1
            if not self.atoms or not self._refine(m):
                return m

    def sat_fixed(self, ids, values):
        return self.check_fixed(ids, values) is not None

    def forced(self, ids, values, out_ids, out_values):
        """under var[ids]=values, are var[out_ids] forced to out_values in every model?"""
        diffs = []
        for vid, val in zip(out_ids, out_values):
            term = self.vars[vid]
            diffs.append((z3.Not(term) if val else term) if z3.is_bool(term) else term != val)
        if not diffs:
            return True
        return self.check_fixed(ids, values, extra=[z3.Or(diffs)]) is None

    def value(self, model, vid):
        term = self.vars[vid]
        v = model.eval(term, model_completion=True)
        return z3.is_true(v) if z3.is_bool(term) else v.as_long()

    def assignment(self, model):
        return {d[1]: self.value(model, d[1]) for d in self.decls}

    def allsat(self, project, limit=None, assumptions=()):
        """yield tuples of values of the variables `project` (ids) that extend to a model.
        Blocking clauses stay in the solver (push/pop around the enumeration)."""
        self.s.push()
        try:
            k = 0
            while True:
                m = self.check(assumptions)
                if m is None:
                    return
                vals = tuple(self.value(m, v) for v in project)
                yield vals
                k += 1
                if limit is not None and k >= limit:
                    return
                block = []
                for v, x in zip(project, vals):
                    term = self.vars[v]
                    if z3.is_bool(term):
                        block.append(z3.Not(term) if x else term)
                    else:
                        block.append(term != x)
                self.s.add(z3.Or(block + [z3.BoolVal(False, self.ctx)]))
        finally:
            self.s.pop()


# ------------------------------------------------------------------ self check
def _rand_ast(rng, kind, decls, depth):
    bs = [d for d in decls if d[0] == "b"]
    is_ = [d for d in decls if d[0] == "i"]
    if kind == "b":
        if depth <= 0 or rng.random() < 0.15:
            if bs and rng.random() < 0.8:
                return ("b", rng.choice(bs)[1])
            return ("lit", rng.random() < 0.5)
        op = rng.choice(["NOT", "AND", "OR", "IFF", "XOR", "IMP", "EQ", "NE", "LE", "LT", "GE", "GT",
                         "ALLDIFF", "CONN", "DIV"])
        if op == "NOT":
            return ("NOT", _rand_ast(rng, "b", decls, depth - 1))
        if op in ("AND", "OR"):
            return (op,) + tuple(_rand_ast(rng, "b", decls, depth - 1) for _ in range(rng.randint(0, 3)))
        if op in ("IFF", "XOR", "IMP"):
            return (op, _rand_ast(rng, "b", decls, depth - 1), _rand_ast(rng, "b", decls, depth - 1))
        if op == "ALLDIFF":
            return (op,) + tuple(_rand_ast(rng, "i", decls, depth - 1) for _ in range(rng.randint(0, 3)))
        if op == "CONN":
            n = rng.randint(1, 4)
            edges = [(u, v) for u in range(n) for v in range(u + 1, n) if rng.random() < 0.5]
            return ("GRAPH_ACTIVE_VERTICES_CONNECTED", ("lit", n), ("lit", len(edges))) + tuple(
                _rand_ast(rng, "b", decls, 0) for _ in range(n)) + tuple(
                ("lit", x) for e in edges for x in e)
        if op == "DIV":
            n = rng.randint(1, 4)
            edges = [(u, v) for u in range(n) for v in range(u + 1, n) if rng.random() < 0.5]
            sizes = tuple(("none",) if rng.random() < 0.5 else
                          (("lit", rng.randint(1, n)) if rng.random() < 0.5 or not is_ else
                           ("i", rng.choice(is_)[1])) for _ in range(n))
            return ("GRAPH_DIVISION", ("lit", n), ("lit", len(edges))) + sizes + tuple(
                ("lit", x) for e in edges for x in e) + tuple(
                _rand_ast(rng, "b", decls, 0) for _ in edges)
        return (op, _rand_ast(rng, "i", decls, depth - 1), _rand_ast(rng, "i", decls, depth - 1))
    if depth <= 0 or rng.random() < 0.2:
        if is_ and rng.random() < 0.7:
            return ("i", rng.choice(is_)[1])
        return ("lit", rng.randint(-3, 4))
    op = rng.choice(["NEG", "ADD", "SUB", "IF"])
    if op == "NEG":
        return ("NEG", _rand_ast(rng, "i", decls, depth - 1))
    if op == "ADD":
        return ("ADD",) + tuple(_rand_ast(rng, "i", decls, depth - 1) for _ in range(rng.randint(1, 3)))
    if op == "SUB":
        return ("SUB",) + tuple(_rand_ast(rng, "i", decls, depth - 1) for _ in range(rng.randint(2, 3)))
    return ("IF", _rand_ast(rng, "b", decls, depth - 1), _rand_ast(rng, "i", decls, depth - 1),
            _rand_ast(rng, "i", decls, depth - 1))


def self_check(n=150, seed=12345):
    """refz3 must agree with brute-force enumeration on small random programs.  A
    disagreement is a harness error (raises)."""
    rng = random.Random(seed)
    for it in range(n):
        decls = []
        for k in range(rng.randint(1, 5)):
            if rng.random() < 0.5:
                decls.append(("b", k))
            else:
                lo = rng.randint(-2, 2)
                decls.append(("i", k, lo, lo + rng.randint(0, 3)))
        cons = [_rand_ast(rng, "b", decls, rng.randint(0, 3)) for _ in range(rng.randint(1, 3))]
        proj = [d[1] for d in decls if rng.random() < 0.7] or [decls[0][1]]
        want = set()
        for asg in refsem.models(decls, cons):
            want.add(tuple(asg[v] for v in proj))
        rs = RefSolver(decls, cons)
        got = set(rs.allsat(proj))
        if got != want:
            raise RuntimeError("refz3 self-check failed on %r %r: %r vs %r" % (decls, cons, got, want))
    return n
