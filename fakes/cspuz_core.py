"""Importable stand-in for the cspuz_core extension module (fresh-interpreter tests).
Put /verif/fakes on PYTHONPATH to make `import cspuz_core` succeed."""
import os, sys
sys.path.insert(0, os.path.dirname(os.path.dirname(os.path.abspath(__file__))))
from vlib import fakesolver as _f  # noqa

__fake__ = True


def solver(text):
    return _f.call(__name__, text)
