#!/venv/bin/python
"""Single entry point of the /verif checks.

  run.py <ID> [--tier quick|thorough] [--replay FILE]

Exit 0: property held on everything explored.  Exit 1: a line
`VIOLATION property=<ID> replay=<path>` was printed.  Exit 2: harness error / inconclusive.
Every random choice derives from VERIF_SEED (default 1).
"""

import argparse
import importlib
import json
import os
import subprocess
import sys
import traceback

HERE = os.path.dirname(os.path.abspath(__file__))
WHEELS = "/opt/veriftools/wheels"
DEPS = os.path.join(HERE, ".deps")


def _ensure_env():
    if os.environ.get("PYTHONHASHSEED") != "0":
        env = dict(os.environ)
        env["PYTHONHASHSEED"] = "0"
        os.execve(sys.executable, [sys.executable] + sys.argv, env)


def _ensure_deps():
    try:
        import hypothesis  # noqa
    except ImportError:
        os.makedirs(DEPS, exist_ok=True)
        subprocess.run(
            [sys.executable, "-m", "pip", "install", "--no-index", "--find-links", WHEELS,
             "--target", DEPS, "hypothesis"],
            stdout=subprocess.DEVNULL, stderr=subprocess.DEVNULL,
        )
    if os.path.isdir(DEPS) and DEPS not in sys.path:
        sys.path.append(DEPS)


def main():
    _ensure_env()
    ap = argparse.ArgumentParser()
    ap.add_argument("pid")
    ap.add_argument("--tier", default=os.environ.get("VERIF_TIER", "quick"),
                    choices=["quick", "thorough"])
    ap.add_argument("--replay", default=None)
    args = ap.parse_args()
    pid = args.pid.upper()
    seed = int(os.environ.get("VERIF_SEED", "1") or "1")
    sys.path.insert(0, HERE)
    _ensure_deps()
    try:
        from vlib import harness

        harness.setup_repo_import()
        mod = importlib.import_module("checks.%s" % pid.lower())
        ctx = harness.Ctx(pid, args.tier, seed, level=getattr(mod, "LEVEL", "exploration"))
        if args.replay:
            with open(args.replay) as f:
                rep = json.load(f)
            try:
                mod.replay(ctx, rep)
            except harness.Failure as f:
                if f.sig in ctx.known_open:
                    print("KNOWN-FINDING: property=%s %s" % (pid, ctx.known_open[f.sig].get("what", f.sig)))
                    return 0
                print("VIOLATION property=%s replay=%s" % (pid, os.path.abspath(args.replay)))
                print("  signature: %s" % f.sig)
                print("  observed: %s" % json.dumps(f.observed, default=repr)[:400])
                print("  expected: %s" % json.dumps(f.expected, default=repr)[:400])
                return 1
            print("replay: property held on %s" % args.replay)
            return 0
        mod.run(ctx)
        return ctx.finish()
    except Exception as e:  # harness error: never a VIOLATION
        traceback.print_exc()
        print("HARNESS-ERROR property=%s %s: %s" % (pid, type(e).__name__, e))
        return 2


if __name__ == "__main__":
    sys.exit(main())
