#!/venv/bin/python
"""usage: run_tests.py <worktree>   -- runs the repository's pinned test suite inside <worktree> (with
PYTHONPATH=<worktree>) and reports whether every test of the stable baseline still passes."""
import json, os, subprocess, sys, tempfile
import xml.etree.ElementTree as ET
wt = os.path.abspath(sys.argv[1])
base = json.load(open("/root/.vp/BASELINE.json"))
out = tempfile.mktemp(suffix=".xml", dir="/tmp")
env = dict(os.environ, PYTHONPATH=wt)
subprocess.run("cd %s && /venv/bin/python -m pytest -ra -q -p no:cacheprovider --timeout=900 --continue-on-collection-errors --junitxml=%s" % (wt, out),
               shell=True, stdout=subprocess.DEVNULL, stderr=subprocess.DEVNULL, env=env)
passed = set()
for tc in ET.parse(out).getroot().iter("testcase"):
    if not any(ch.tag in ("failure", "error", "skipped") for ch in tc):
        passed.add(tc.get("classname") + "::" + tc.get("name"))
os.remove(out)
missing = [t for t in base["stable_pass"] if t not in passed]
print("passed=%d stable_pass=%d missing=%d" % (len(passed), len(base["stable_pass"]), len(missing)))
for t in missing[:20]:
    print("  NOW FAILING:", t)
sys.exit(1 if missing else 0)
