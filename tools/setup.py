#!/venv/bin/python
"""Offline setup: make sure hypothesis (and, if possible, atheris) are importable for /venv's
interpreter.  Everything comes from /opt/veriftools/wheels; nothing is fetched."""
import os, subprocess, sys

HERE = os.path.dirname(os.path.dirname(os.path.abspath(__file__)))
DEPS = os.path.join(HERE, ".deps")
WHEELS = "/opt/veriftools/wheels"

def pip(*pkgs):
    os.makedirs(DEPS, exist_ok=True)
    return subprocess.run([sys.executable, "-m", "pip", "install", "--no-index", "--find-links", WHEELS,
                           "--target", DEPS] + list(pkgs)).returncode

sys.path.append(DEPS)
try:
    import hypothesis  # noqa
except ImportError:
    pip("hypothesis")
try:
    import atheris  # noqa
except ImportError:
    pip("atheris")
for d in ("evidence", "replays"):
    os.makedirs(os.path.join(HERE, d), exist_ok=True)
print("setup done")
