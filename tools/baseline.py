#!/venv/bin/python
"""Run the repository's pinned test suite (command from /root/.vp/BASELINE.json) and compare the
set of passing tests with the baseline's stable_pass list.  Exit 0 iff every stable pass still
passes.  Used after every fix:/hook commit in /repo (guard off = the default)."""
import json, os, subprocess, sys, tempfile
import xml.etree.ElementTree as ET

base = json.load(open("/root/.vp/BASELINE.json"))
out = tempfile.mktemp(suffix=".xml", dir="/tmp")
env = dict(os.environ)
env.pop("CSPUZ_VERIF", None)
cmd = base["cmd"].replace("<file>", out)
subprocess.run(cmd, shell=True, stdout=subprocess.DEVNULL, stderr=subprocess.DEVNULL, env=env)
passed = set()
for tc in ET.parse(out).getroot().iter("testcase"):
    if not any(ch.tag in ("failure", "error", "skipped") for ch in tc):
        passed.add(tc.get("classname") + "::" + tc.get("name"))
os.remove(out)
missing = [t for t in base["stable_pass"] if t not in passed]
print("passed=%d stable_pass=%d missing=%d" % (len(passed), len(base["stable_pass"]), len(missing)))
for t in missing[:20]:
    print("  MISSING", t)
sys.exit(1 if missing else 0)
