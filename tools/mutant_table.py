"""Sensitivity mutants (DESIGN.md 'S' lists).  Each: (name, [(file, old, new), ...])."""

Z3 = "cspuz/backend/z3.py"
ARR = "cspuz/array.py"
SOLV = "cspuz/solver.py"
SUGAR = "cspuz/backend/sugar_like.py"
CONF = "cspuz/configuration.py"
GRAPH = "cspuz/graph.py"

MUTANTS = {
    "C13": [
        ("range_size rounding", [(ARR, "return (stop - start + step - 1) // step", "return (stop - start) // step")]),
        ("x index uses // instead of %", [(ARR, "x = x_start + x_step * (i % x_size)", "x = x_start + x_step * (i // x_size)")]),
        ("negative int index not wrapped", [(ARR, "        if p < 0:\n            p += size\n        if not 0 <= p < size:", "        if not -size <= p < size:")]),
        ("neg step uses old clamp", [(ARR, "start, stop, step = slice(key.start, key.stop, step).indices(size)", "start, stop, step = slice(key.start, key.stop, step).indices(size)\n        if step < 0 and key.stop is not None and key.stop < -size:\n            stop = 0")]),
        ("reshape transposes", [(ARR, 'return BoolArray2D(cast("List[BoolExpr]", data), cast("Tuple[int, int]", shape))', 'return BoolArray2D(cast("List[BoolExpr]", data[::-1][::-1] if shape[0] != 2 else data[1:] + data[:1]), cast("Tuple[int, int]", shape))')]),
    ],
    "C01": [
        ("z3 LT -> LE", [(Z3, "return operands[0] < operands[1]", "return operands[0] <= operands[1]")]),
        ("z3 drop lower bound", [(Z3, "solver.add(var.lo <= var_z3, var_z3 <= var.hi)", "solver.add(var_z3 <= var.hi)")]),
        ("z3 SUB right-assoc", [(Z3, "ret = ret - operands[i]", "ret = ret - operands[i] if i == 1 else ret + operands[i]")]),
        ("z3 XOR -> IFF", [(Z3, "return z3.Xor(operands[0], operands[1])", "return operands[0] == operands[1]")]),
        ("z3 returns True without writing int sol", [(Z3, "var.sol = model[var_z3].as_long()", "pass")]),
        ("z3 IMP reversed", [(Z3, "return z3.Or(z3.Not(operands[0]), operands[1])", "return z3.Or(z3.Not(operands[1]), operands[0])")]),
        ("rsub operand order", [("cspuz/expr.py", "return _make_int_expr(Op.SUB, [other, self])", "return _make_int_expr(Op.SUB, [self, other])")]),
        ("count_true drops literal True", [("cspuz/constraints.py", "            if x is True:\n                constant += 1", "            if x is True:\n                constant += 0")]),
        ("solver forgets constraints posted after first solve", [(SOLV, "        csp_solver.add_constraint(self.constraints)\n        return csp_solver.solve()", "        if not hasattr(self, '_n'):\n            self._n = len(self.constraints)\n        csp_solver.add_constraint(self.constraints[: self._n])\n        return csp_solver.solve()")]),
    ],
    "C02": [
        ("loop demotes on == instead of !=", [(SOLV, "and answer[i] != self.variables[i].sol", "and answer[i] == self.variables[i].sol")]),
        ("loop never demotes", [(SOLV, "                    answer[i] = None", "                    pass")]),
        ("loop stops after one refinement", [(SOLV, "                    answer[i] = None\n", "                    answer[i] = None\n            break\n")]),
        ("refuting clause uses ==", [(SOLV, "difference_cond.append(self.variables[i] != a)", "difference_cond.append(self.variables[i] == a)")]),
        ("loop only refines bool keys", [(SOLV, "if self.is_answer_key[i] and a is not None:", "if self.is_answer_key[i] and a is not None and isinstance(a, bool):")]),
        ("deduction reply: false parsed as True", [(SUGAR, "            var, val = line.split(\" \")\n            if val == \"true\":\n                converted_val = True\n            elif val == \"false\":\n                converted_val = False", "            var, val = line.split(\" \")\n            if val == \"true\":\n                converted_val = True\n            elif val == \"false\":\n                converted_val = True")]),
        ("deduction: first key not announced", [(SUGAR, "            if is_answer_key[i]:\n                if isinstance(self.variables[i], BoolVar):", "            if is_answer_key[i] and i > 0:\n                if isinstance(self.variables[i], BoolVar):")]),
        ("deduction: unsat not recognised", [(SUGAR, 'if "unsat" in out[0]:', 'if "unsat " in out[0]:')]),
        ("solve(): sol of keys not written back", [(SOLV, "                self.variables[i].sol = answer[i]\n        return True", "                pass\n        return True")]),
    ],
    "C12": [
        ("IntArray1D.__rsub__ operand order", [(ARR, "    def __rsub__(self, other: IntOperand1D) -> \"IntArray1D\":\n        return _elementwise(Op.SUB, self.shape, [other, self])", "    def __rsub__(self, other: IntOperand1D) -> \"IntArray1D\":\n        return _elementwise(Op.SUB, self.shape, [self, other])")]),
        ("_elementwise takes element 0 of 2nd operand", [(ARR, "                expr_operands.append(operand.data[i])", "                expr_operands.append(operand.data[i if j == 0 else 0])")]),
        ("conv2d window width uses height", [(ARR, "component = self[y : y + height, x : x + width]", "component = self[y : y + height, x : x + height]")]),
        ("four_neighbors lower bound", [(ARR, "    if y2 < height - 1:\n        ret.append(array[y2 + 1, x2])", "    if y2 < height - 2:\n        ret.append(array[y2 + 1, x2])")]),
        ("BoolArray2D.__ror__ uses AND", [(ARR, "    def __ror__(self, other: BoolOperand2D) -> \"BoolArray2D\":\n        return _elementwise(Op.OR, self.shape, [other, self])", "    def __ror__(self, other: BoolOperand2D) -> \"BoolArray2D\":\n        return _elementwise(Op.AND, self.shape, [other, self])")]),
        ("BoolArray1D.then reversed", [(ARR, "    def then(self, other: BoolOperand1D) -> \"BoolArray1D\":\n        res = _elementwise(Op.IMP, self.shape, [self, other])", "    def then(self, other: BoolOperand1D) -> \"BoolArray1D\":\n        res = _elementwise(Op.IMP, self.shape, [other, self])")]),
        ("fold_and literal False ignored", [("cspuz/constraints.py", "            if x is False:\n                return BoolExpr(Op.BOOL_CONSTANT, [False])", "            if x is False:\n                continue")]),
        ("no shape check in _elementwise", [(ARR, "            if operand.shape is not None and operand.shape != shape:", "            if operand.shape is not None and len(operand.shape) != len(shape):")]),
        ("IntArray2D.__gt__ is GE", [(ARR, "    def __gt__(self, other: IntOperand2D) -> \"BoolArray2D\":\n        return _elementwise(Op.GT, self.shape, [self, other])", "    def __gt__(self, other: IntOperand2D) -> \"BoolArray2D\":\n        return _elementwise(Op.GE, self.shape, [self, other])")]),
        ("cond fn accepts int condition again", [("cspuz/constraints.py", "        res = _make_int_expr(Op.IF, [c, t, f])  # type: ignore\n        if res is NotImplemented:\n            raise TypeError(\"unsupported argument type(s) for 'cond'\")\n        return res", "        return IntExpr(Op.IF, [c, t, f])")]),
        ("alldifferent helper skips nested tuples", [("cspuz/constraints.py", "    for x in flatten_iterator(*args):\n        if isinstance(x, int):\n            operands.append(x)", "    for x in flatten_iterator(*[a for a in args if not isinstance(a, tuple)]):\n        if isinstance(x, int):\n            operands.append(x)")]),
    ],
    "C03": [
        ("bool vars emitted with i prefix in expressions", [(SUGAR, '        return "b{}".format(e.id)', '        return "i{}".format(e.id)')]),
        ("IMP emitted as iff", [(SUGAR, 'Op.IMP: "=>",', 'Op.IMP: "iff",')]),
        ("XOR emitted as iff", [(SUGAR, 'Op.XOR: "xor",', 'Op.XOR: "iff",')]),
        ("GE emitted as >", [(SUGAR, 'Op.GE: ">=",', 'Op.GE: ">",')]),
        ("answer-key line dropped", [(SUGAR, "self.converted_variables + self.converted_constraints + [answer_keys_desc]", "self.converted_variables + self.converted_constraints")]),
        ("int decl bounds swapped", [(SUGAR, 'return "(int i{} {} {})".format(v.id, v.lo, v.hi)', 'return "(int i{} {} {})".format(v.id, v.hi, v.lo)')]),
        ("reply var id parsed from 2nd char", [(SUGAR, "            assignment[int(var[1:])] = converted_val\n        for v in self.variables:\n            v.sol = assignment[v.id]\n        return True\n\n    def solve_irrefutably", "            assignment[int(var[2:] or var[1:])] = converted_val\n        for v in self.variables:\n            v.sol = assignment[v.id]\n        return True\n\n    def solve_irrefutably")]),
        ("find reply: false parsed as True", [(SUGAR, '            var, val = line[2:].strip().split("\\t")\n            if val == "true":\n                converted_val = True\n            elif val == "false":\n                converted_val = False', '            var, val = line[2:].strip().split("\\t")\n            if val == "true":\n                converted_val = True\n            elif val == "false":\n                converted_val = True')]),
        ("find reply: ints kept as str", [(SUGAR, "                converted_val = int(val)\n            assignment[int(var[1:])] = converted_val\n        for v in self.variables:\n            v.sol = assignment[v.id]\n        return True\n\n    def solve_irrefutably", "                converted_val = val\n            assignment[int(var[1:])] = converted_val\n        for v in self.variables:\n            v.sol = assignment[v.id]\n        return True\n\n    def solve_irrefutably")]),
        ("deduction: stale sol on undecided keys", [(SUGAR, "        out = self._call_solver(csp_description).split(\"\\n\")\n        for v in self.variables:\n            v.sol = None\n\n        if \"unsat\" in out[0]:", "        out = self._call_solver(csp_description).split(\"\\n\")\n\n        if \"unsat\" in out[0]:"), (SUGAR, "            assignment[int(var[1:])] = converted_val\n        for v in self.variables:\n            v.sol = assignment[v.id]\n        return True\n\n    def _call_solver", "            assignment[int(var[1:])] = converted_val\n        for v in self.variables:\n            if assignment[v.id] is not None:\n                v.sol = assignment[v.id]\n        return True\n\n    def _call_solver")]),
        ("native atom: edges before flags", [("cspuz/graph.py", "                + [is_active[i] for i in range(len(is_active))]  # type: ignore\n                + sum([[x, y] for x, y in graph.edges], []),  # type: ignore", "                + sum([[x, y] for x, y in graph.edges], [])  # type: ignore\n                + [is_active[i] for i in range(len(is_active))],  # type: ignore")]),
        ("native atom: edge endpoints y,y", [("cspuz/graph.py", "                + sum([[x, y] for x, y in graph.edges], []),  # type: ignore", "                + sum([[y, y] for x, y in graph.edges], []),  # type: ignore")]),
        ("native division: sizes None emitted as 0", [(SUGAR, '    if e is None:\n        return "*"', '    if e is None:\n        return "0"')]),
        ("constant false emitted as true", [(SUGAR, '        return "true" if e.operands[0] else "false"', '        return "true"')]),
        ("last constraint not emitted", [(SUGAR, "            self.converted_constraints += map(_convert_expr, constraint)", "            self.converted_constraints += map(_convert_expr, constraint[:-1] if len(constraint) > 3 else constraint)")]),
    ],
    "C20": [
        ("detection: csugar before enigma_csp", [(CONF, "    try:\n        import enigma_csp  # type: ignore  # noqa\n\n        return \"enigma_csp\"\n    except ImportError:\n        pass\n\n    try:\n        import pycsugar  # type: ignore  # noqa\n\n        return \"csugar\"\n    except ImportError:\n        pass\n", "    try:\n        import pycsugar  # type: ignore  # noqa\n\n        return \"csugar\"\n    except ImportError:\n        pass\n\n    try:\n        import enigma_csp  # type: ignore  # noqa\n\n        return \"enigma_csp\"\n    except ImportError:\n        pass\n")]),
        ("csugar dispatches to SugarExtendedBackend", [(SOLV, "        return backend.sugar_like.CSugarBackend", "        return backend.sugar_like.SugarExtendedBackend")]),
        ("strtobool accepts yes", [(CONF, 'if s in ("true", "1"):', 'if s in ("true", "1", "yes"):')]),
        ("explicit False falls back to config (connected)", [(GRAPH, "    if use_graph_primitive is None:\n        use_graph_primitive = config.use_graph_primitive\n    if use_graph_primitive and not acyclic:", "    if not use_graph_primitive:\n        use_graph_primitive = config.use_graph_primitive\n    if use_graph_primitive and not acyclic:")]),
        ("primitive used when acyclic", [(GRAPH, "    if use_graph_primitive and not acyclic:", "    if use_graph_primitive:")]),
        ("per-call backend ignored", [(SOLV, "    if backend is None:\n        return _get_default_backend()", "    if backend is None or isinstance(backend, str):\n        return _get_default_backend()")]),
        ("borders variant follows use_graph_primitive", [(GRAPH, "        use_graph_primitive = config.use_graph_division_primitive", "        use_graph_primitive = config.use_graph_primitive")]),
        ("sugar_extended gets primitive default", [(CONF, 'if self.default_backend in ("csugar", "enigma_csp", "cspuz_core"):', 'if self.default_backend in ("csugar", "enigma_csp", "cspuz_core", "sugar_extended"):')]),
        ("division env var reads the other key", [(CONF, '                "CSPUZ_USE_GRAPH_DIVISION_PRIMITIVE",', '                "CSPUZ_USE_GRAPH_PRIMITIVE",')]),
        ("unknown backend falls back to z3", [(SOLV, '        raise ValueError("invalid backend {}".format(backend_name))', '        return backend.z3.Z3Backend')]),
        ("single_cycle ignores explicit True when config off", [(GRAPH, "    if use_graph_primitive is None:\n        use_graph_primitive = config.use_graph_primitive\n    n = graph.num_vertices\n\n    is_passed = solver.bool_array(n)\n\n    if use_graph_primitive:\n        for i in range(n):\n            degree = count_true([is_active_edge[e] for j, e in graph.incident_edges[i]])\n            solver.ensure(degree == is_passed[i].cond(2, 0))", "    use_graph_primitive = config.use_graph_primitive and use_graph_primitive is not False\n    n = graph.num_vertices\n\n    is_passed = solver.bool_array(n)\n\n    if use_graph_primitive:\n        for i in range(n):\n            degree = count_true([is_active_edge[e] for j, e in graph.incident_edges[i]])\n            solver.ensure(degree == is_passed[i].cond(2, 0))")]),
        ("backend_path ignored by sugar_extended", [(SUGAR, "class SugarExtendedBackend(SugarLikeBackend):\n    def _call_solver(self, csp_description: str) -> str:\n        sugar_path = config.backend_path or \"sugar\"", "class SugarExtendedBackend(SugarLikeBackend):\n    def _call_solver(self, csp_description: str) -> str:\n        sugar_path = \"sugar\"")]),
        ("config flag captured at import time in division_connected", [(GRAPH, "    if use_graph_primitive is None:\n        use_graph_primitive = config.use_graph_primitive\n\n    n = graph.num_vertices\n    m = len(graph)\n\n    if use_graph_primitive:\n        for i in range(num_regions):", "    if use_graph_primitive is None:\n        use_graph_primitive = _IMPORT_TIME_FLAG\n\n    n = graph.num_vertices\n    m = len(graph)\n\n    if use_graph_primitive:\n        for i in range(num_regions):"), (GRAPH, "class Graph(object):", "_IMPORT_TIME_FLAG = config.use_graph_primitive\n\n\nclass Graph(object):")]),
    ],
}
