#!/venv/bin/python
"""Sensitivity testing: apply each listed mutant to a scratch copy of /repo (outside /repo and
/verif), run the property's quick check against the copy, expect exit 1; delete the copy.

  tools/mutants.py [PID ...] [-j N] [--tier quick]
"""
import argparse, json, os, shutil, subprocess, sys, tempfile
from concurrent.futures import ThreadPoolExecutor

HERE = os.path.dirname(os.path.dirname(os.path.abspath(__file__)))
sys.path.insert(0, HERE)
from tools.mutant_table import MUTANTS  # noqa


def run_one(args):
    pid, name, edits, tier = args
    d = tempfile.mkdtemp(prefix="mut_%s_" % pid, dir="/tmp")
    try:
        repo = os.path.join(d, "r")
        shutil.copytree("/repo", repo, ignore=shutil.ignore_patterns(".git", "__pycache__", "*.egg-info"))
        for (path, old, new) in edits:
            fp = os.path.join(repo, path)
            s = open(fp).read()
            if s.count(old) < 1:
                return (pid, name, "MUTANT-DOES-NOT-APPLY", "")
            s = s.replace(old, new, 1)
            open(fp, "w").write(s)
        env = dict(os.environ, VERIF_REPO=repo, VERIF_OUT_DIR=os.path.join(d, "out"), PYTHONHASHSEED="0")
        try:
            p = subprocess.run([sys.executable, os.path.join(HERE, "run.py"), pid, "--tier", tier],
                               env=env, stdout=subprocess.PIPE, stderr=subprocess.STDOUT, text=True,
                               timeout=900, start_new_session=True)
        except subprocess.TimeoutExpired:
            subprocess.run(["pkill", "-9", "-f", "VERIF_REPO=%s" % repo])
            return (pid, name, "TIMEOUT", "")
        sigs = [l.strip() for l in p.stdout.splitlines() if l.strip().startswith("signature:")]
        verdict = {0: "MISSED", 1: "caught", 2: "HARNESS-ERROR"}.get(p.returncode, "rc=%d" % p.returncode)
        tail = "" if p.returncode == 1 else p.stdout[-600:]
        return (pid, name, verdict, "; ".join(sigs[:3]) + tail)
    finally:
        shutil.rmtree(d, ignore_errors=True)


def main():
    ap = argparse.ArgumentParser()
    ap.add_argument("pids", nargs="*")
    ap.add_argument("-j", type=int, default=4)
    ap.add_argument("--tier", default="quick")
    ap.add_argument("--only", default=None)
    a = ap.parse_args()
    jobs = []
    for pid, lst in MUTANTS.items():
        if a.pids and pid not in a.pids:
            continue
        for name, edits in lst:
            if a.only and a.only not in name:
                continue
            jobs.append((pid, name, edits, a.tier))
    bad = 0
    with ThreadPoolExecutor(a.j) as ex:
        for pid, name, verdict, info in ex.map(run_one, jobs):
            print("%s %-55s %s  %s" % (pid, name, verdict, info[:700]))
            sys.stdout.flush()
            if verdict != "caught":
                bad += 1
    print("mutants: %d, not caught: %d" % (len(jobs), bad))
    return 1 if bad else 0

if __name__ == "__main__":
    sys.exit(main())
