#!/venv/bin/python
"""Confirm a seeded breakage delivered by an independent sub-agent and run the checks against it.

  tools/seed_eval.py <ID> [--src /tmp/seed_<ID>/seed] [--checks C01,C02] [--tier quick] [--keep NAME]

Steps (all in a fresh scratch worktree of /repo's HEAD under /tmp, removed afterwards):
  1. demo.py exits 0 on the unchanged tree;
  2. patch.diff applies; the pinned test suite still passes (all stable tests);
  3. demo.py exits non-zero with the patch;
  4. the property's quick check (and any extra checks given) run against the patched tree through
     VERIF_REPO, outputs redirected (the committed evidence is untouched);
and, if 1-3 hold, the change is stored as /verif/seeded/<NAME>/ (patch.diff, demo.py, meta.json).
"""
import argparse, json, os, shutil, subprocess, sys, tempfile, time

HERE = os.path.dirname(os.path.dirname(os.path.abspath(__file__)))


def sh(cmd, **kw):
    return subprocess.run(cmd, shell=True, stdout=subprocess.PIPE, stderr=subprocess.STDOUT, text=True, **kw)


def main():
    ap = argparse.ArgumentParser()
    ap.add_argument("pid")
    ap.add_argument("--src", default=None)
    ap.add_argument("--checks", default=None)
    ap.add_argument("--tier", default="quick")
    ap.add_argument("--keep", default=None)
    ap.add_argument("--no-store", action="store_true")
    a = ap.parse_args()
    pid = a.pid.upper()
    src = a.src or "/tmp/seed_%s/seed" % pid
    name = a.keep or pid
    for f in ("patch.diff", "demo.py", "meta.json"):
        if not os.path.exists(os.path.join(src, f)):
            print("missing", f, "in", src)
            return 2
    wt = tempfile.mkdtemp(prefix="seedchk_%s_" % pid, dir="/tmp")
    os.rmdir(wt)
    r = sh("git -C /repo worktree add -q --detach %s HEAD" % wt)
    if r.returncode:
        print(r.stdout)
        return 2
    out = tempfile.mkdtemp(prefix="seedout_", dir="/tmp")
    res = dict(property=pid, confirmed=False)
    try:
        env = dict(os.environ, PYTHONPATH=wt, PYTHONHASHSEED="0")
        demo = os.path.join(src, "demo.py")
        r0 = subprocess.run([sys.executable, demo], cwd=wt, env=env, stdout=subprocess.PIPE, stderr=subprocess.STDOUT, text=True, timeout=900)
        res["demo_on_unchanged_tree"] = r0.returncode
        ra = sh("git -C %s apply %s" % (wt, os.path.join(src, "patch.diff")))
        res["patch_applies"] = ra.returncode == 0
        if not res["patch_applies"]:
            print(ra.stdout)
        rt = sh("%s %s" % (os.path.join(HERE, "tools", "run_tests.py"), wt))
        if rt is None:
            rt = sh("cd %s && PYTHONPATH=%s /venv/bin/python -m pytest -q -p no:cacheprovider --timeout=900 --continue-on-collection-errors | tail -1" % (wt, wt))
        res["tests"] = rt.stdout.strip().splitlines()[0] if rt.stdout.strip() else ""
        res["tests_still_pass"] = "missing=0" in rt.stdout
        r1 = subprocess.run([sys.executable, demo], cwd=wt, env=env, stdout=subprocess.PIPE, stderr=subprocess.STDOUT, text=True, timeout=900)
        res["demo_with_change"] = r1.returncode
        res["confirmed"] = (r0.returncode == 0 and res["patch_applies"] and res["tests_still_pass"] and r1.returncode != 0)
        checks = (a.checks.split(",") if a.checks else [pid])
        res["checks"] = {}
        for c in checks:
            t0 = time.time()
            env2 = dict(os.environ, VERIF_REPO=wt, VERIF_OUT_DIR=out, PYTHONHASHSEED="0")
            p = subprocess.run([sys.executable, os.path.join(HERE, "run.py"), c, "--tier", a.tier], env=env2,
                               stdout=subprocess.PIPE, stderr=subprocess.STDOUT, text=True)
            sigs = [l.strip()[len("signature: "):] for l in p.stdout.splitlines() if l.strip().startswith("signature:")]
            res["checks"][c] = dict(exit=p.returncode, verdict={0: "MISSED", 1: "caught", 2: "harness-error"}.get(p.returncode, "?"),
                                    signatures=sigs[:6], wall_s=round(time.time() - t0, 1), tier=a.tier)
            if p.returncode == 2:
                res["checks"][c]["tail"] = p.stdout[-500:]
        print(json.dumps(res, indent=1))
        if res["confirmed"] and not a.no_store:
            dst = os.path.join(HERE, "seeded", name)
            os.makedirs(dst, exist_ok=True)
            shutil.copy(os.path.join(src, "patch.diff"), dst)
            shutil.copy(demo, dst)
            meta = json.load(open(os.path.join(src, "meta.json")))
            meta["breaks_property"] = pid
            meta["confirmed_by"] = ("fresh worktree of /repo HEAD: demo.py exit 0 unchanged, patch applies, pinned test "
                                    "suite passes (missing=0), demo.py exit %d with the change" % r1.returncode)
            meta["repo_commit"] = sh("git -C /repo log --format=%h -1").stdout.strip()
            meta["checks_run"] = res["checks"]
            json.dump(meta, open(os.path.join(dst, "meta.json"), "w"), indent=1)
    finally:
        sh("git -C /repo worktree remove --force %s" % wt)
        shutil.rmtree(wt, ignore_errors=True)
        shutil.rmtree(out, ignore_errors=True)
        sh("git -C /repo worktree prune")
    return 0 if res["confirmed"] else 1


if __name__ == "__main__":
    sys.exit(main())
