#!/venv/bin/python
"""Systematic mutation survey (complements the hand-written sensitivity mutants and the seeded changes).

For a source file of /repo, AST-level mutants are generated (comparison flips, +-1 on small integer
constants, + <-> -, and <-> or, `not` removal, deletion of an `ensure(...)` statement).  Each mutant is
applied to a scratch copy under /tmp; mutants that the repository's own test suite already kills are
discarded ("still passing the existing tests" is the bar); the others are run against the quick checks
mapped to the file.  Survivors are listed for triage (equivalent mutant or blind spot).

  tools/automutate.py cspuz/graph.py [--max 120] [-j 6] [--out survey.json]
"""
import argparse, ast, copy, json, os, shutil, subprocess, sys, tempfile
from concurrent.futures import ThreadPoolExecutor

HERE = os.path.dirname(os.path.dirname(os.path.abspath(__file__)))

FILE_CHECKS = {
    "cspuz/array.py": ["C12", "C13"],
    "cspuz/expr.py": ["C01", "C12"],
    "cspuz/constraints.py": ["C01", "C12"],
    "cspuz/solver.py": ["C01", "C02", "C20"],
    "cspuz/backend/z3.py": ["C01"],
    "cspuz/backend/sugar_like.py": ["C03", "C02"],
    "cspuz/configuration.py": ["C20"],
    "cspuz/grid_frame.py": ["C14", "C06"],
    "cspuz/problem_serializer.py": ["C15", "C16", "C17"],
    "cspuz/generator/segmentation.py": ["C18", "C19"],
    "cspuz/generator/builder.py": ["C19"],
    "cspuz/generator/core.py": ["C19"],
    "cspuz/generator/deterministic_random.py": ["C19"],
    "cspuz/generator/srandom.py": ["C19"],
    "cspuz/puzzle/util.py": ["C16"],
}
GRAPH_FUNCS = {
    "_active_vertices_connected": ["C04"], "active_vertices_connected": ["C04"], "_grid_graph": ["C04", "C08", "C05"],
    "active_vertices_not_adjacent": ["C08"], "active_vertices_not_adjacent_and_not_segmenting": ["C08"],
    "active_edges_acyclic": ["C09"], "_division_connected": ["C05"], "division_connected": ["C05"],
    "_division_connected_variable_groups": ["C07"], "division_connected_variable_groups": ["C07"],
    "_division_connected_variable_groups_with_borders": ["C07"],
    "division_connected_variable_groups_with_borders": ["C07"],
    "_active_edges_single_cycle": ["C06"], "active_edges_single_cycle": ["C06"], "_active_edges_single_path": ["C06"],
    "active_edges_single_path": ["C06"], "line_graph": ["C06"], "_from_grid_frame": ["C06", "C14"],
    "active_edges_connected_crossable": ["C10"], "active_edges_single_cycle_crossable": ["C10"],
    "add_edge": ["C04", "C09"], "__init__": ["C04"],
}


class Mut:
    def __init__(self, desc, lineno, func, tree):
        self.desc, self.lineno, self.func, self.tree = desc, lineno, func, tree


def gen_mutants(src):
    tree = ast.parse(src)
    out = []
    parents = {}
    for node in ast.walk(tree):
        for ch in ast.iter_child_nodes(node):
            parents[ch] = node

    def func_of(node):
        while node in parents:
            node = parents[node]
            if isinstance(node, (ast.FunctionDef,)):
                return node.name
        return "<module>"

    targets = []
    for node in ast.walk(tree):
        if isinstance(node, ast.Compare) and len(node.ops) == 1:
            swap = {ast.Lt: ast.LtE, ast.LtE: ast.Lt, ast.Gt: ast.GtE, ast.GtE: ast.Gt, ast.Eq: ast.NotEq,
                    ast.NotEq: ast.Eq}.get(type(node.ops[0]))
            if swap:
                targets.append(("cmp", node, swap))
        elif isinstance(node, ast.Constant) and isinstance(node.value, int) and not isinstance(node.value, bool) \
                and 0 <= node.value <= 3 and not isinstance(parents.get(node), (ast.Expr,)):
            targets.append(("const+1", node, node.value + 1))
            if node.value >= 1:
                targets.append(("const-1", node, node.value - 1))
        elif isinstance(node, ast.BinOp) and isinstance(node.op, (ast.Add, ast.Sub)):
            targets.append(("arith", node, ast.Sub if isinstance(node.op, ast.Add) else ast.Add))
        elif isinstance(node, ast.BoolOp):
            targets.append(("boolop", node, ast.Or if isinstance(node.op, ast.And) else ast.And))
        elif isinstance(node, ast.UnaryOp) and isinstance(node.op, ast.Not):
            targets.append(("not", node, None))
        elif isinstance(node, ast.Expr) and isinstance(node.value, ast.Call) and \
                isinstance(node.value.func, ast.Attribute) and node.value.func.attr == "ensure":
            targets.append(("drop-ensure", node, None))
    for kind, node, arg in targets:
        lineno = getattr(node, "lineno", 0)
        fn = func_of(node)
        # mutate in place, unparse, restore
        if kind == "cmp":
            old = node.ops[0]
            node.ops[0] = arg()
            text = ast.unparse(tree)
            node.ops[0] = old
            desc = "%s -> %s" % (type(old).__name__, arg.__name__)
        elif kind.startswith("const"):
            old = node.value
            node.value = arg
            text = ast.unparse(tree)
            node.value = old
            desc = "const %d -> %d" % (old, arg)
        elif kind == "arith":
            old = node.op
            node.op = arg()
            text = ast.unparse(tree)
            node.op = old
            desc = "%s -> %s" % (type(old).__name__, arg.__name__)
        elif kind == "boolop":
            old = node.op
            node.op = arg()
            text = ast.unparse(tree)
            node.op = old
            desc = "%s -> %s" % (type(old).__name__, arg.__name__)
        elif kind == "not":
            par = parents[node]
            done = False
            for f, v in ast.iter_fields(par):
                if v is node:
                    setattr(par, f, node.operand)
                    text = ast.unparse(tree)
                    setattr(par, f, node)
                    done = True
                elif isinstance(v, list) and node in v:
                    i = v.index(node)
                    v[i] = node.operand
                    text = ast.unparse(tree)
                    v[i] = node
                    done = True
            if not done:
                continue
            desc = "remove not"
        else:
            par = parents[node]
            body = None
            for f, v in ast.iter_fields(par):
                if isinstance(v, list) and node in v:
                    body = v
            if body is None:
                continue
            i = body.index(node)
            body[i] = ast.Pass()
            text = ast.unparse(tree)
            body[i] = node
            desc = "drop ensure(...)"
        out.append(Mut(desc, lineno, fn, text))
    return out


def run_one(args):
    path, idx, m, checks, tier = args
    d = tempfile.mkdtemp(prefix="am_", dir="/tmp")
    try:
        repo = os.path.join(d, "r")
        shutil.copytree("/repo", repo, ignore=shutil.ignore_patterns(".git", "__pycache__", "*.egg-info", "docs"))
        with open(os.path.join(repo, path), "w") as f:
            f.write(m.tree)
        env = dict(os.environ, PYTHONPATH=repo, PYTHONHASHSEED="0")
        p = subprocess.run("cd %s && /venv/bin/python -m pytest -q -x -p no:cacheprovider --timeout=300 "
                           "--deselect tests/test_backend.py -k 'not cspuz_core and not default_backend1' 2>&1 | tail -3" % repo,
                           shell=True, env=env, stdout=subprocess.PIPE, text=True, timeout=900)
        if " failed" in p.stdout or "error" in p.stdout.lower():
            return dict(idx=idx, line=m.lineno, func=m.func, desc=m.desc, verdict="killed-by-repo-tests")
        res = {}
        caught = False
        for c in checks:
            env2 = dict(os.environ, VERIF_REPO=repo, VERIF_OUT_DIR=os.path.join(d, "out"), PYTHONHASHSEED="0")
            try:
                q = subprocess.run([sys.executable, os.path.join(HERE, "run.py"), c, "--tier", tier], env=env2,
                                   stdout=subprocess.PIPE, stderr=subprocess.STDOUT, text=True, timeout=1200,
                                   start_new_session=True)
                rc = q.returncode
                sig = [l.strip()[11:] for l in q.stdout.splitlines() if l.strip().startswith("signature:")][:2]
            except subprocess.TimeoutExpired:
                subprocess.run(["pkill", "-9", "-f", repo])
                rc, sig = 124, ["timeout"]
            res[c] = dict(rc=rc, sig=sig)
            if rc in (1, 124):
                caught = True
                break
        v = "caught" if caught else ("harness-error" if any(r["rc"] == 2 for r in res.values()) else "SURVIVED")
        return dict(idx=idx, line=m.lineno, func=m.func, desc=m.desc, verdict=v, checks=res)
    finally:
        shutil.rmtree(d, ignore_errors=True)


def main():
    ap = argparse.ArgumentParser()
    ap.add_argument("path")
    ap.add_argument("--max", type=int, default=120)
    ap.add_argument("-j", type=int, default=4)
    ap.add_argument("--out", default=None)
    ap.add_argument("--tier", default="quick")
    ap.add_argument("--checks", default=None)
    a = ap.parse_args()
    src = open(os.path.join("/repo", a.path)).read()
    muts = gen_mutants(src)
    # drop mutants that unparse to the original
    base = ast.unparse(ast.parse(src))
    muts = [m for m in muts if m.tree != base]
    step = max(1, len(muts) // a.max)
    picked = muts[::step][:a.max]
    jobs = []
    for i, m in enumerate(picked):
        if a.checks:
            checks = a.checks.split(",")
        elif a.path == "cspuz/graph.py":
            checks = GRAPH_FUNCS.get(m.func, ["C04", "C06"])
        elif a.path.startswith("cspuz/puzzle/") and a.path not in FILE_CHECKS:
            checks = ["C11", "C16", "C17"]
        else:
            checks = FILE_CHECKS.get(a.path, ["C01"])
        jobs.append((a.path, i, m, checks, a.tier))
    print("%s: %d mutants generated, %d selected" % (a.path, len(muts), len(picked)))
    results = []
    with ThreadPoolExecutor(a.j) as ex:
        for r in ex.map(run_one, jobs):
            results.append(r)
            print("%3d L%-4d %-40s %-22s %s" % (r["idx"], r["line"], r["func"][:40], r["desc"], r["verdict"]))
            sys.stdout.flush()
    summ = {}
    for r in results:
        summ[r["verdict"]] = summ.get(r["verdict"], 0) + 1
    print("summary", summ)
    if a.out:
        json.dump(dict(path=a.path, generated=len(muts), selected=len(picked), summary=summ, results=results),
                  open(a.out, "w"), indent=1)


if __name__ == "__main__":
    main()
