#!/venv/bin/python
"""Writes /verif/MANIFEST.json from the table below (keeps the file valid by construction)."""
import json, os

HERE = os.path.dirname(os.path.dirname(os.path.abspath(__file__)))
ALL = ["C%02d" % i for i in range(1, 21)]

CHECKS = {
    "C01": dict(
        technique="Hypothesis-generated DSL programs and declare/ensure/solve histories against a reference evaluator with brute-force model enumeration, planted models and planted contradictions",
        text="Programs are written through the public DSL from typed recursive recipes (every operator, literals on either side, n-ary/empty/constant-only aggregates). SAT answers are checked by evaluating every constraint under the published sol values (types and bounds included); UNSAT answers by exhaustive enumeration of the declared domains (enumerable class) or by construction (phi and its structural negation) on domains up to +-10^6; planted-SAT programs must be found SAT. Histories re-check after every prefix. Exploration: sampled, not exhaustive. Injected fault: on planted-satisfiable Latin-square programs z3 is made to answer unknown (global timeout 1 ms); find_answer may raise or find a checked model but must never return False. A third of the enumerable programs are built as DAGs (equal sub-recipes shared as one object, binary operators in augmented form) with later constraints extending sums / conjunctions of earlier ones.",
        note="Trusted base: vlib/gen_expr.rev (40-line evaluator of the recipe with the ordinary meaning), Python itertools enumeration. Only well-typed DSL-built trees; 1-ary SUB excluded. Default backend of the tree (z3 offline). 9/9 sensitivity mutants caught (tools/mutant_table.py).",
        design_ref="3/C01",
    ),
    "C02": dict(
        technique="Hypothesis-generated programs x answer-key subsets x six backend names against the brute-force solution set (reference model); closed-form families for many refinement rounds and for wide key sets (up to 2600 keys); external solvers replaced by an independent stand-in",
        text="For each generated enumerable program and key subset the full solution set is enumerated; solve() must return True iff it is non-empty and every key's sol must be the common value or None exactly as the set dictates. Both refinement routes: cspuz' own refute-and-resolve loop (z3, sugar incl. a real subprocess) and the native deduction reply (sugar_extended, csugar, enigma_csp, cspuz_core) answered by vlib/fakesolver. A generous solve-count budget (16 + 2 x the summed domain sizes of the keys) turns a non-terminating refinement loop into a deterministic failure. Exploration: sampled programs. A closed-form family with 70-170 boolean keys needs about one satisfiable refinement round per key (many-rounds).",
        note="Trusted base: vlib/gen_expr.rev evaluator, brute-force enumeration, vlib/sexp + vlib/fakesolver as a correct external solver (cross-checked against refz3). Real Sugar/csugar/cspuz_core binaries are not available offline. 9/9 sensitivity mutants caught.",
        design_ref="3/C02",
    ),
    "C03": dict(
        technique="Hypothesis-generated programs with captured solver input parsed by an independent S-expression reader (translation validation by truth functions), scripted protocol replies, and end-to-end differential runs through a stand-in solver",
        text="(1) The exact text handed to the external solver (extension-module call or subprocess stdin) is captured for all five backend names in both modes, parsed by vlib/sexp (written from the Sugar syntax) and compared with the Solver: declarations as a set with domains, the # line with the registered keys, and the constraint lines as a multiset of truth functions over all (domain product <= 512) or 48 sampled assignments; native graph atoms are compared with the intended graph predicate of the generated graph and flags. (2) Scripted well-formed replies of both formats of CspuzSugarInterface.java (negative integers, ids >= 10, arbitrary decided subsets, Java order and permuted) must land in the right sol fields with the right Python types. (3) The C01 oracle is re-run through the stand-in under all five names, a subset through a real subprocess. Exploration (sampled). Half of the real-subprocess cases run with config.solver_timeout set and a stand-in psutil, the stand-in solver writing diagnostics to stderr.",
        note="Trusted base: vlib/sexp, vlib/refsem, vlib/fakesolver; the Java file is read as the specification of the reply format (not executed, no Sugar jar offline). Constraint line order is not asserted. 15/15 sensitivity mutants caught.",
        design_ref="3/C03",
    ),
    "C12": dict(
        technique="Hypothesis-generated operator/operand-kind/shape cases evaluated element by element with a reference evaluator; ill-formed uses must raise",
        text="Every operator form of the four array classes (array-array, array-scalar, scalar-array incl. reflected forms, Python literals, unary, then/cond as methods and as free functions) on 1-D/2-D shapes incl. empty and 1xN is executed; each result element is evaluated under generated assignments and compared with the Python operator applied to the evaluated operands in written order; result class and shape are checked; ill-typed and ill-shaped uses must raise. Helpers take generated nested arguments (lists, tuples, generators, arrays, literals, empty); conv2d for all window sizes 1..dim+1; four_neighbors on every cell of shapes up to 4x4, including that a returned index list can be modified by the caller without affecting later calls. Exploration (sampled).",
        note="Trusted base: vlib/refsem evaluator. ==/!= between Bool and Int operands and wrong-sort Python literals in array operators are outside the rejection claim. 11/11 sensitivity mutants caught.",
        design_ref="3/C12",
    ),
    "C13": dict(
        technique="exhaustive small-scope enumeration + Hypothesis key pairs against Python list indexing (differential oracle); model-based histories over a pool of derived arrays (index / reshape / flatten)",
        text="Every integer key, slice triple (bounds in [-size-3,size+3], steps +-1,2,3,5), key pair, coordinate list, flatten and reshape on all 1-D sizes 0..6 and 2-D shapes up to 4x4 (plus 2x5/5x2/1x6) is compared with Python's own list indexing; exhaustive inside that scope, sampled by Hypothesis beyond it. Arrays with more than 256 elements (17x17, 16x17, 300x1, 1x257, 20x20, 3x100) are flattened, reshaped to every factorisation and sliced as well. Exploration level: no absence proof beyond the scope.",
        note="Trusted base: CPython list/slice semantics as the oracle; variable ids as element identity. Step 0 is outside the domain; 'no row selected + out-of-range column integer' accepts either outcome. Mutants caught: see DESIGN.md section 7.",
        design_ref="3/C13",
    ),
}

CHECKS["C20"] = dict(
    technique="model-based testing: Hypothesis-generated configuration histories replayed against a reference model of the documented dispatch rules, observing instantiated backend classes, stand-in call logs and posted programs",
    text="Generated histories combine environment variables (backend name incl. auto/junk/empty; 13 spellings of the boolean flags; backend path), the importable subset of {cspuz_core, enigma_csp, pycsugar, z3} (sys.modules substitution), later assignments to cspuz.config and per-call arguments (backend None/name/class/junk; use_graph_primitive None/True/False x acyclic for every graph function). After each step the instantiated backend class, the invoked external entry point (stand-in call logs, subprocess argv, presence of the # line) and the presence of native graph operators in solver.constraints are compared with a reference model of the documented rules; import-time Config() is covered by fresh-interpreter cases. Exploration (sampled histories). with_borders is called in four argument forms (sizes list, no sizes, all-None list, frame + IntArray2D).",
    note="Trusted base: the 25-line reference model in checks/c20.py (ref_config / expected_native); stand-ins for the external solvers. A named backend whose module is missing must still instantiate its class; the ImportError is accepted. 13/13 sensitivity mutants caught.",
    design_ref="3/C20",
)

CHECKS["C04"] = dict(
    technique="small-scope exhaustion: all 2^n activity patterns of all small graphs/grids decided on the posted encoding by an independent solver (projection) vs BFS, plus Hypothesis-generated end-to-end find_answer cases, winding shapes and histories on one Graph object that grows between calls (model-based)",
    text="For every labelled simple graph on <=4 (thorough 5) vertices, drawn simple/multi graphs up to 7 (9) vertices and every grid shape with h*w <= 11 (16) through the BoolArray2D form, x acyclic x {rank encoding, native atom}, the public function is called once and ALL 2^n patterns are decided on the posted program (read through the public data model) by vlib/refz3 and compared with BFS connectivity / tree-ness: soundness, completeness and 'no other constraint on the caller's variables' at once. Native atoms are evaluated by the reference semantics. Every small graph is entered in three edge orientations (ascending, descending, long edges reversed). End-to-end cases feed the pattern as pinned/negated variables, expressions, constants, list/BoolArray1D/BoolArray2D through find_answer (z3, cspuz_core stand-in). Exhaustive within the scope, sampled beyond. Winding shard: grids of 12-36 cells through the array form (rank encoding, acyclic on/off) with spiral / snake / ring / random induced-path patterns and neighbours that break them, decided on the posted program.",
    note="Trusted base: vlib/graphref BFS, vlib/refz3 (self-checked against brute force), z3 as LIA decision procedure. Acyclic mode on simple graphs only. 9/9 sensitivity mutants caught (one design-list mutant, '>= 1 -> == 1' in the non-acyclic branch, turned out to be semantically equivalent and was replaced).",
    design_ref="3/C04",
)
CHECKS["C08"] = dict(
    technique="small-scope exhaustion of all activity patterns on all small graphs and grid shapes (projection through an independent solver) against the graph definition, three-way on grids; constructed long chains (zig-zags, serpentines on 230-330 cell boards) end to end",
    text="ALL 2^n patterns of every labelled simple graph on <=4 (5) vertices, drawn multigraphs up to 7 (8), and every grid shape with h*w <= 12 (16) incl. all 1xN/Nx1, for not_adjacent and not_adjacent_and_not_segmenting, in the specialised grid form and the explicit-graph form, are decided on the posted program and compared with the definition (no edge with both ends active; inactive vertices connected). Beyond the exhaustive scope, boards 4x6..7x5 and 4x9 (thorough up to 8x8) are probed with constructed patterns (border-rooted diagonal zig-zag chains plus isolated cells) through one projection query per shape. Exhaustive within the scope, sampled beyond.",
    note="Trusted base: vlib/graphref, vlib/refz3. Empty inactive set counts as connected. 9/9 sensitivity mutants caught; found and fixed the 1xN defect.",
    design_ref="3/C08",
)
CHECKS["C09"] = dict(
    technique="small-scope exhaustion of all edge subsets of all small multigraphs (projection through an independent solver) against union-find; long graphs and histories on one Graph object that grows between calls",
    text="ALL 2^m edge subsets of every loop-free multigraph with n<=4, m<=6 (thorough n<=5) and of drawn multigraphs with n<=6, m<=9 are decided on the posted program and compared with union-find cycle detection (parallel active edges are a cycle); flags also supplied as negated variables / expressions / constants through find_answer. Exhaustive within the scope. Long graphs: paths / cycles / stars of 17-45 vertices and grid graphs of 25-49 vertices with winding active edge sets, one pattern per case.",
    note="Trusted base: vlib/graphref.UF, vlib/refz3. 6/6 sensitivity mutants caught.",
    design_ref="3/C09",
)

CHECKS["C05"] = dict(
    technique="small-scope exhaustion of all k^n labelings on all small graphs/grids (projection through an independent solver) against the definition, plus Hypothesis-generated end-to-end cases over label forms",
    text="For every labelled simple graph on <=4 vertices (thorough: a derived quarter of the 5-vertex graphs too), grid shapes with h*w <= 6 (8), num_regions 1..3, allow_empty_group on/off, roots absent or a derived list with None holes (vertex ids / (y,x)), both encodings, ALL k^n labelings are decided on the posted program and compared with: classes connected, every label used unless empty groups allowed, roots respected. End-to-end cases supply the labels as pinned IntArray1D/2D, arrays of expressions, lists of IntExpr and lists of Python ints, solved on z3 / the cspuz_core stand-in. Exhaustive within the scope. Winding shard: grids of 12-30 cells where one label class is a long winding shape (roots at its far end, class cut in the middle as the negative case).",
    note="Trusted base: vlib/graphref, vlib/refz3 (CEGAR for the native atoms). Label domains exactly 0..k-1. 8/8 sensitivity mutants caught; two design-list mutants are equivalent w.r.t. the property and were dropped. Found and fixed the list-labels defect of the native branch.",
    design_ref="3/C05",
)

CHECKS["C06"] = dict(
    technique="small-scope exhaustion of all edge subsets (fixed-pattern probing; AllSAT projection vs DFS cycle enumeration on larger frames) through an independent solver, with the returned array checked for being forced",
    text="Cycle (rank + native) and path (native): every loop-free multigraph with n<=4, m<=5 (thorough m<=6, n<=5), drawn multigraphs n<=5, m<=8, every BoolGridFrame 0<=h,w<=3 (thorough + 3x4): all 2^m subsets by fixed-pattern probing when m<=12, otherwise the AllSAT projection of the posted program on the edge variables must equal {empty} + the DFS-enumerated simple cycles of the lattice (3x3: 214 models cover 2^24 subsets). For every admitted pattern 'pattern and returned array != visited vertices' must be UNSAT; frame results must have shape (h+1, w+1). A fifth of the graphs are Graph objects that the same constraint already used before more edges were added (stale-cache histories). End-to-end find_answer cases check the returned array's sol. Exhaustive within the scope. Graphs with self-loop edges: lone active loop don't-care, loop plus any other active edge must be rejected.",
    note="Trusted base: vlib/graphref (degrees + union-find), vlib/lattice (geometry, DFS enumeration; the two reference formulations are cross-checked against each other at run time), vlib/refz3. The rank form of single_path raising RuntimeError('TODO') is documented. 11/11 sensitivity mutants caught; found and fixed 'single_path rejects the empty set'.",
    design_ref="3/C06",
)

CHECKS["C07"] = dict(
    technique="small-scope exhaustion: all set partitions (grouped form) and all 2^m border patterns (border form) on small graphs/grids decided on the posted encoding by an independent solver against the definition",
    text="Grouped form: for every labelled simple graph on <=4 vertices, a derived sample of 5/6-vertex graphs and grid shapes with h*w<=6, with size specifications absent / constant / shared IntVar / per-vertex list with None holes / IntArray1D-2D / 2-D lists (with shape inference), every set partition is imposed on the returned ids as pairwise ==/!= and decided; SAT iff blocks connected and sizes met. Border form: all 2^m border patterns (m<=10) x sizes x {rank, native graph-division atom}, explicit graphs and BoolInnerGridFrame+IntArray2D; SAT iff components meet the sizes and no border lies inside a component. Exhaustive within the scope. Winding shard: the shape= form on grids of 12-30 cells where one block is a spiral / snake / induced path (sizes absent or a list with holes, one wrong size as the negative case).",
    note="Trusted base: vlib/graphref, vlib/refz3 (CEGAR for the native atom). 12/12 sensitivity mutants caught (one design-list mutant, '>' -> '>=' in the subtree sum, is equivalent because active edges already join different ranks; replaced).",
    design_ref="3/C07",
)

CHECKS["C10"] = dict(
    technique="small-scope exhaustion of all segment subsets of small frames (fixed-pattern probing / AllSAT projection vs brute-force reference predicate) through an independent solver, returned arrays checked for being forced",
    text="Frames 0x2, 0x3, 1x1..2x2, 1x3, 3x1: all 2^m subsets probed; 2x3/3x2 (2^17 subsets) by AllSAT projection against the reference predicate evaluated on every subset (quick: cycle form; thorough: path form and the 3x3 cycle form too); single_cycle on/off, rank and native encodings (native through a CEGAR loop because the split graph's flags are variables), the single_cycle_crossable alias. Reference: degrees in {0,1,2,4} ({0,2,4}), 4 only at interior points, one strand under union-find with straight pairs passing through at 4-way points. Both returned arrays must be forced (visited, 4-way) on every admitted pattern. Constructed end-to-end cases up to 3x3 (4x4). Exhaustive within the scope. Dense weave trails on 4x4-7x6 frames (up to 84 segments in one strand) with one-segment neighbours; multi-strand refutations are skipped on frames with more than 60 segments.",
    note="Trusted base: vlib/lattice geometry, union-find strand model in checks/c10.analyse, vlib/refz3. 9/9 sensitivity mutants caught; the design-list mutant 'allow crossing on the boundary' is equivalent (boundary degree <= 3) and was dropped.",
    design_ref="3/C10",
)

CHECKS["C14"] = dict(
    technique="exhaustive enumeration of all small frames and all coordinates in and around them against an explicit lattice-geometry model",
    text="Every BoolGridFrame with 0<=h,w<=5 (thorough 8), ids starting at 0 and at an offset: frame[Y,X] for every doubled coordinate in [-2,2h+2]x[-2,2w+2] (segment identity or IndexError: parity, range, negatives), cell_neighbors and vertex_neighbors for every cell/point in and around the frame in both call styles (exact edge sets or IndexError), array shapes and element identity, all_edges == iteration with every segment exactly once, dual() keeps every variable on its geometric segment, dual of dual equals the original accessor by accessor, inner iteration, and the (edge list, graph) that the loop constraints infer pairs each variable with the two lattice points it joins. Exhaustive in the scope; the code has no size-dependent branches beyond it. Histories: several frames with sides up to 23 (and their transposes) built and interrogated in one process.",
    note="Trusted base: vlib/lattice (80 lines of geometry). Variable-to-segment mapping by documented construction order. 10/10 sensitivity mutants caught.",
    design_ref="3/C14",
)

CHECKS["C15"] = dict(
    technique="Hypothesis joint generation of (combinator term, value in its domain) with a round-trip oracle up to canonical room order and an exact-consumption check with junk appended; sparse / blank boards over the densest space packings",
    text="Terms are drawn over all thirteen combinators: item-level alternatives (HexInt / IntSpaces / MultiDigit, Spaces, Dict) combined in OneOf with pairwise disjoint first-character classes in any order, item streams built from chunks so that runs cross the one-character limit, values sit at 15/16/255/256/4095 and rows end in partial digit groups; composites Tupl, Seq (incl. length 0 and nested), Grid (explicit or environment size, 1xN, Nx1), Rooms and ValuedRooms over random connected partitions with rooms and cells in random order. deserialize_problem(serialize_problem(v)) must equal v up to the canonical ordering of rooms with values still attached to their rooms, and the low-level deserialize must consume exactly the produced characters, also with junk appended; a third of the size-dependent terms are used a second time, as the same object, for a board of another size. Exploration (sampled).",
    note="Trusted base: vlib/gen_comb (sound-by-construction value generation; its stated preconditions are listed in the evidence assumptions). 13/13 sensitivity mutants caught; four genuine defects found and fixed (Grid size 0, Grid item index, empty encodings at end of input, ValuedRooms ordering).",
    design_ref="3/C15",
)

CHECKS["C16"] = dict(
    technique="Hypothesis-generated problems per puzzle codec with a round-trip oracle, an independently written pzpr-format decoder as differential oracle, and legacy-vs-combinator text comparison",
    text="For nurikabe, masyu, slitherlink, sudoku, nurimisaki, yajilin ('..', '??', arrows with numbers up to 20), heyawake (general and rectangular form), lits, norinori, compass, star_battle, aquarium: problems on boards 1..12 (some 24/30) per side, square and not, with long empty runs and values at 15/16/255/256/300, rooms and cells in any order. (1) decode(encode(p)) == p with dimensions; (2) the URL carries name/width/height in the puzz.link order (split without cspuz' regex); (3) the body read by vlib/pzpr_ref equals the problem; (4) util.encode_array == Grid(OneOf(Spaces, HexInt)) text and util.encode_grid_segmentation == Rooms text. Exploration (sampled). Every decode is repeated after the first result was edited in place; the second result must equal a deep copy of the first.",
    note="Trusted base: vlib/pzpr_ref (DESIGN.md Appendix B), self-checked at start-up against 40 literal URLs of the repository whose expected problems are stored in corpus/literal_urls.json; aquarium / starbattle layouts have no literal URL to validate against. 14/14 sensitivity mutants caught; two genuine defects found and fixed (compass width/height, yajilin '??' and >= 16).",
    design_ref="3/C16",
)

CHECKS["C17"] = dict(
    technique="mutational-structural Hypothesis fuzzing of the URL decoders with the semantic oracle inside the target; thorough tier adds an atheris (libFuzzer) coverage-guided campaign on the same entry function",
    text="Inputs: valid URLs from the C16 generators (9 codecs) or synthetic URLs (codec-specific token bodies with dimensions 0..4, large boards with constant bodies, dimensions 0/1/huge/non-ASCII digits/empty, other hosts, missing segments) followed by 0..6 edits; arbitrary Unicode text; deserialize_problem_as_url with generated allowed_puzzles/allow_failure/return_size; get_puzzle_info_from_url; deserialize_problem(term, text, h, w) for generated combinator terms with mutated texts and odd sizes. Outcome must be None, ValueError or a problem of the dimensions stated in the URL that serializes and whose canonical text decodes to an equal problem; anything else is bucketed by (exception type, innermost cspuz frame) so that one root cause does not hide the next. Every body of <= 3 (4) characters over each codec's token characters on six tiny boards is enumerated exhaustively. Thorough: 16 atheris workers x 60 s (FuzzedDataProvider decoding into entry kind/codec/dimensions/body; empty and seeded corpora). One open known finding (Tupl.serialize ignoring surplus items of an element; see known_findings.json and DESIGN.md 7.8) is replayed on every run and printed as KNOWN-FINDING. Exploration. Boards of 1-3 x 400-2500 cells with exact-length all-zero Rooms bodies and single rooms snaking through 20-50 x 20-50 boards are generated as well (deep recursion).",
    note="Trusted base: the oracle in checks/c17.py; workers run under a 2 GiB address-space cap so that unbounded allocation on a short input surfaces as MemoryError. compass.parse_puzz_link_url is outside the property. 12/12 sensitivity mutants caught; seven root causes found and fixed (see known_findings.json); the atheris target rediscovers them on the original snapshot within 40 s.",
    design_ref="3/C17",
)

CHECKS["C18"] = dict(
    technique="model-based random walks (Hypothesis-generated operation sequences) over the builder's proposed updates with a partition-validity invariant after every step",
    text="Boards 1..5 x 1..5 (thorough 7x7); a drawn target partition fixes feasible bounds (min/max block count and size, some None); start from initial() (single block or initial_blocks = target, also with allow_unmet_constraints_first), Python's random seeded per case; up to 40 picks among candidates(cur) applied with copy_with_update. After every step and on sibling candidates: every cell in exactly one non-empty block, every block orthogonally connected (BFS), block count and sizes inside the bounds, the previous value equal to a deep copy taken before, and no block list shared between the new and the previous value. Exploration (sampled histories). A quarter of the targets contain a block that encloses another block (ring with a tail); at the first step every proposal is applied.",
    note="Trusted base: the 40-line invariant in checks/c18.py. initial() runs under a guard of 3000 random.choice calls (a hit is inconclusive; none observed). 10/10 sensitivity mutants caught.",
    design_ref="3/C18",
)

CHECKS["C19"] = dict(
    technique="Hypothesis-generated builder patterns and pure solver callbacks with a recording oracle (soundness, purity, neighbour validity), metamorphic reproducibility runs (global random state / backend / interpreter), and range, chi-square and dictated-raw-word checks of the deterministic PRNG",
    text="(a) generate_problem runs over generated patterns (Choice, ArrayBuilder2D with symmetry / disallow_adjacent incl. custom offsets / use_move / symmetric initial, SegmentationBuilder2D, nested lists and tuples with constants) and hash-based solver, uniqueness, score, pretest and penalty callbacks: the result is None or the first solver argument that was sat and accepted; every neighbour differs from the current problem in exactly one builder position with values from the choice set, keeps container types, point symmetry and (value-setting updates) the adjacency option; nothing handed out earlier is mutated. (b) one seed gives one candidate sequence under two random.seed values, on z3 vs the cspuz_core stand-in for a real model, and in a fresh interpreter; another seed gives another sequence. (c) randint in [a,b] incl. negative a and width 2^32, full support for width <= 64, ValueError on invalid ranges; choice / shuffle / random ranges. (d) chi-square (p > 1e-9) for randint, choice, shuffle (n <= 4), random; structurally, with the raw 32-bit words dictated: accepted iff below 2^32 - 2^32 mod w, value a + x mod w, equal preimage counts for w > 2^26, n! index sequences give n! permutations. Exploration. shuffle is decided exactly over the decision tree of its randint draws in any order; randint exactly when the documented word mapping is observed (incl. two rejections in a row), statistically on the widest ranges otherwise.",
    note="Trusted base: the recording oracle in checks/c19.py; uniformity of the xorshift stream itself is taken from the literature. 16/16 sensitivity mutants caught; two genuine defects found and fixed (randint offset, segmentation using Python's random).",
    design_ref="3/C19",
)

CHECKS["C11"] = dict(
    technique="Hypothesis-generated puzzle instances. Small boards: decided exhaustively by independent rule checkers and candidate enumerators (reference model), compared with solve_<puzzle> cell by cell. Boards of 16-50 cells: independently planted rule-obeying grids (or solver models accepted by the rule checker) with derived clues; every model of the posted program must obey the rules, a planted grid must be found, no decided cell may contradict a rule-obeying grid",
    text="All 26 listed modules have an independent spec in /verif/puzzles: a generator of small boards incl. non-square ones with clues on the border and zero clues, a candidate enumerator (all 2^cells markings; all simple cycles of the lattice plus 'no line'; Latin squares by backtracking; connected partitions; 5^k triangle fillings with a geometric rectangle test) and a rule checker transcribed from the published rules (DESIGN.md Appendix A). For each instance the set V of rule-obeying grids is computed; solve_<puzzle> must report a solution iff V is non-empty and every answer-key cell must be the value common to V or None when V disagrees. Instances where a don't-care candidate (rule corner on which published rule sets differ) exists are skipped and counted. Long thin boards (2x12..15, 1x21..24) with two-digit clues are included for castle_wall and yajilin. Exhaustive per instance, sampled over instances (quick: 200 per puzzle; thorough: 2400). Second layer (puzzles/large.py) for boards that cannot be enumerated (16-50 cells, sudoku 9x9): the rule checker alone is the oracle. Instances are planted independently where a construction exists (random simple loops as boundaries of grown face regions for the six loop puzzles, shuffled Latin / sudoku patterns, greedy akari lighting, grown creek regions, cycle-free gokigen flips, non-touching star permutations with grown blocks, aquarium levels, compass rooms, the small generators' planted dominoes / tetrominoes) or bootstrapped (a clue-poor instance is solved in model mode - Solver.solve replaced by find_answer for one call - a model accepted by the checker becomes the planted grid and the clues are derived from it). Checked: the first 3 models of the posted constraints obey the rules (soundness), a planted grid is not lost (completeness), no cell is decided against a rule-obeying grid (exactness, one direction). The checkers are self-tested against the enumerators on small boards in every run.",
    note="Trusted base: the rule transcriptions in /verif/puzzles (three-valued), default backend z3. Exhaustive board sizes are bounded by the enumerators (<= 12-16 cells, loops on <= 4x4 / 4x5 cells); the second layer goes to 50 cells but is one-directional for bootstrapped puzzles (an encoding that is too strong everywhere cannot be seen through its own models: nurimisaki, fivecells, view, shakashaka and unplanted fillomino instances rely on the small layer for that direction; the other 21 puzzles have independently planted grids that must themselves be models). 26/26 per-puzzle sensitivity mutants plus 7 large-board-only mutants caught (four design-list mutants were equivalent and replaced, see tools/mutant_table.py). Found and fixed the aquarium table defect.",
    design_ref="3/C11",
)

NOT_BUILT_REASON = "check not built yet in this session (planned in DESIGN.md section 3); not claimed until it runs quietly and is mutation-tested"

def main():
    checks = []
    for pid in ALL:
        if pid not in CHECKS:
            continue
        c = CHECKS[pid]
        checks.append(dict(
            property_id=pid,
            quick_cmd="/venv/bin/python /verif/run.py %s --tier quick" % pid,
            thorough_cmd="/venv/bin/python /verif/run.py %s --tier thorough" % pid,
            evidence_file="/verif/evidence/%s.json" % pid,
            replay_cmd_template="/venv/bin/python /verif/run.py %s --replay {path}" % pid,
            engine="run.py",
            level_claimed=dict(category=c.get("category", "exploration"), text=c["text"],
                               design_ref="DESIGN.md " + c["design_ref"]),
            level_note=c["note"],
            technique=c["technique"],
        ))
    na = [dict(property_id=p, reason=NOT_BUILT_REASON) for p in ALL if p not in CHECKS]
    man = dict(
        version=1,
        setup_cmd="/venv/bin/python /verif/tools/setup.py",
        hooks=dict(
            guard="CSPUZ_VERIF",
            enable="no hooks are needed: the checks import cspuz from /repo's working tree and substitute backends through the public find_answer(backend=...) / sys.modules / os.environ interfaces",
            baseline_off_cmd="/venv/bin/python /verif/tools/baseline.py",
            source_commits=[],
            add_only=True,
        ),
        engines=[dict(name="run.py", path="/verif/run.py", serves_properties=sorted(CHECKS),
                      kind_free_text="Python runner: Hypothesis generators / exhaustive small-scope enumeration / atheris fuzz targets against independent oracles; VERIF_SEED-deterministic; replay files are plain JSON")],
        checks=checks,
        notes="All checks: exit 0 held, exit 1 + VIOLATION line, exit 2 harness error/inconclusive. known_findings.json lists genuine defects (fixed: entries suppress nothing).",
        not_applicable=na,
    )
    with open(os.path.join(HERE, "MANIFEST.json"), "w") as f:
        json.dump(man, f, indent=1)
        f.write("\n")
    try:
        import jsonschema
        jsonschema.validate(man, json.load(open("/root/.vp/MANIFEST.schema.json")))
        print("MANIFEST.json valid;", len(checks), "checks")
    except ImportError:
        print("MANIFEST.json written (jsonschema not importable here);", len(checks), "checks")

if __name__ == "__main__":
    main()
