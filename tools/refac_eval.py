#!/venv/bin/python
"""False-alarm hunt: apply behaviour-preserving refactorings (delivered by independent sub-agents) to a
scratch worktree of /repo and run the quick checks that depend on the touched files.  Every check must
stay quiet (exit 0); a VIOLATION on a refactoring that really preserves behaviour is a false alarm of
the machinery.

  tools/refac_eval.py /tmp/refac_A/seed [--all]
  tools/refac_eval.py /verif/refactorings        (the 20 stored ones: <scope>_refactor_<k>.diff)
"""
import glob, json, os, shutil, subprocess, sys, tempfile

HERE = os.path.dirname(os.path.dirname(os.path.abspath(__file__)))
ALL = ["C%02d" % i for i in range(1, 21)]
DEPS = [
    ("cspuz/expr.py", ALL), ("cspuz/constraints.py", ALL), ("cspuz/array.py", ALL), ("cspuz/solver.py", ALL),
    ("cspuz/backend/z3.py", ["C01", "C02", "C04", "C05", "C06", "C08", "C09", "C10", "C11", "C19", "C20"]),
    ("cspuz/backend/sugar_like.py", ["C02", "C03", "C04", "C05", "C06", "C07", "C10", "C19", "C20"]),
    ("cspuz/graph.py", ["C03", "C04", "C05", "C06", "C07", "C08", "C09", "C10", "C11", "C14", "C20"]),
    ("cspuz/grid_frame.py", ["C06", "C07", "C10", "C11", "C14", "C20"]),
    ("cspuz/configuration.py", ["C05", "C20", "C02", "C03"]),
    ("cspuz/problem_serializer.py", ["C15", "C16", "C17"]),
    ("cspuz/puzzle/util.py", ["C16", "C17"]),
    ("cspuz/puzzle/", ["C11", "C16", "C17"]),
    ("cspuz/generator/", ["C18", "C19"]),
]


def sh(cmd):
    return subprocess.run(cmd, shell=True, stdout=subprocess.PIPE, stderr=subprocess.STDOUT, text=True)


def main():
    src = os.path.abspath(sys.argv[1])
    run_all = "--all" in sys.argv
    no_tests = "--no-tests" in sys.argv      # the pinned suite was already run on these diffs
    only = [a.split("=", 1)[1] for a in sys.argv if a.startswith("--only=")]
    results = []
    for diff in sorted(glob.glob(os.path.join(src, "*refactor_*.diff"))):
        if only and not any(o in os.path.basename(diff) for o in only):
            continue
        wt = tempfile.mkdtemp(prefix="refchk_", dir="/tmp")
        os.rmdir(wt)
        sh("git -C /repo worktree add -q --detach %s HEAD" % wt)
        out = tempfile.mkdtemp(prefix="refout_", dir="/tmp")
        rec = dict(diff=diff)
        try:
            ra = sh("git -C %s apply %s" % (wt, diff))
            rec["applies"] = ra.returncode == 0
            if not rec["applies"]:
                rec["error"] = ra.stdout[-300:]
                results.append(rec)
                continue
            if no_tests:
                rec["tests"] = "skipped"
            else:
                rt = sh("%s %s" % (os.path.join(HERE, "tools", "run_tests.py"), wt))
                rec["tests"] = rt.stdout.strip().splitlines()[0] if rt.stdout.strip() else ""
            files = [l[6:] for l in open(diff).read().splitlines() if l.startswith("+++ b/")]
            rec["files"] = files
            checks = set()
            for f in files:
                for pref, cs in DEPS:
                    if f.startswith(pref):
                        checks.update(cs)
            if run_all:
                checks = set(ALL)
            rec["checks"] = {}
            for c in sorted(checks):
                env = dict(os.environ, VERIF_REPO=wt, VERIF_OUT_DIR=out, PYTHONHASHSEED="0")
                p = subprocess.run([sys.executable, os.path.join(HERE, "run.py"), c, "--tier", "quick"], env=env,
                                   stdout=subprocess.PIPE, stderr=subprocess.STDOUT, text=True)
                sigs = [l.strip()[11:] for l in p.stdout.splitlines() if l.strip().startswith("signature:")]
                if p.returncode != 0:
                    rec["checks"][c] = dict(exit=p.returncode, signatures=sigs[:4], tail=p.stdout[-400:] if p.returncode == 2 else "")
                else:
                    rec["checks"][c] = dict(exit=0)
            rec["alarms"] = sorted(c for c, v in rec["checks"].items() if v["exit"] != 0)
        finally:
            sh("git -C /repo worktree remove --force %s" % wt)
            shutil.rmtree(wt, ignore_errors=True)
            shutil.rmtree(out, ignore_errors=True)
            sh("git -C /repo worktree prune")
        results.append(rec)
        print(os.path.basename(diff), "applies=%s" % rec.get("applies"), rec.get("tests", ""), "checks=%d" % len(rec.get("checks", {})),
              "ALARMS=%s" % rec.get("alarms"))
        for c in rec.get("alarms", []):
            print("   ", c, rec["checks"][c]["signatures"], rec["checks"][c].get("tail", "")[-200:])
        sys.stdout.flush()
    if not only:
        json.dump(results, open(os.path.join(src, "refac_results.json"), "w"), indent=1, sort_keys=True)


if __name__ == "__main__":
    main()
