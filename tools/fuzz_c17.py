#!/venv/bin/python
"""Coverage-guided fuzz target for C17 (atheris / libFuzzer), run by checks/c17.py in the thorough
tier.  Bytes are decoded into (entry kind, codec, dimensions, body) by FuzzedDataProvider so that
the fuzzer reaches the decoders instead of dying in URL validation; the semantic oracle of C17
(None / ValueError / re-encodable problem of the stated dimensions) runs inside the target.
Failures are collected by root-cause signature (the campaign continues past them) and reported on
one line:  FUZZ-RESULT {json}.
"""
import argparse, json, os, sys, time

HERE = os.path.dirname(os.path.dirname(os.path.abspath(__file__)))
sys.path.insert(0, HERE)
sys.path.append(os.path.join(HERE, ".deps"))
from vlib import harness  # noqa

harness.setup_repo_import()
import atheris  # noqa

with atheris.instrument_imports(include=["cspuz"]):
    import cspuz.problem_serializer  # noqa
    import cspuz.puzzle.nurikabe, cspuz.puzzle.masyu, cspuz.puzzle.slitherlink, cspuz.puzzle.sudoku  # noqa
    import cspuz.puzzle.nurimisaki, cspuz.puzzle.yajilin, cspuz.puzzle.heyawake, cspuz.puzzle.lits  # noqa
    import cspuz.puzzle.norinori  # noqa

from checks import c17, c16  # noqa

FAIL = {}
COUNT = [0]
ALPH = c17.URL_ALPHABET


def one(data):
    COUNT[0] += 1
    fdp = atheris.FuzzedDataProvider(data)
    kind = fdp.ConsumeIntInRange(0, 3)
    codec = c17.TARGETS[fdp.ConsumeIntInRange(0, len(c17.TARGETS) - 1)]
    if kind == 3:
        text = fdp.ConsumeUnicodeNoSurrogates(200)
        case = dict(kind="puzzle", codec=codec, text=text, edits=99)
    else:
        w = fdp.ConsumeIntInRange(0, 14)
        h = fdp.ConsumeIntInRange(0, 14)
        name = c16.URL_NAME[codec] if fdp.ConsumeIntInRange(0, 9) else "x"
        n = fdp.ConsumeIntInRange(0, 120)
        body = "".join(ALPH[b % len(ALPH)] for b in fdp.ConsumeBytes(n))
        url = "https://puzz.link/p?%s/%d/%d/%s" % (name, w, h, body)
        if kind == 0:
            case = dict(kind="puzzle", codec=codec, text=url, edits=1)
        else:
            case = dict(kind="generic", codec=codec, text=url, edits=1,
                        allowed=[None, c16.URL_NAME[codec], "other"][fdp.ConsumeIntInRange(0, 2)],
                        allow_failure=fdp.ConsumeBool(), return_size=fdp.ConsumeBool())
    try:
        c17.body(case)
    except harness.Failure as f:
        if f.sig not in FAIL or len(case["text"]) < len(FAIL[f.sig]["case"]["text"]):
            FAIL[f.sig] = dict(case=case, observed=f.observed)


OUT = [None]


def flush():
    if OUT[0]:
        tmp = OUT[0] + ".tmp"
        with open(tmp, "w") as f:
            json.dump(dict(executions=COUNT[0], failures=FAIL), f, default=repr)
        os.replace(tmp, OUT[0])


def target(data):
    n_before = len(FAIL)
    one(data)
    if len(FAIL) != n_before or COUNT[0] % 2000 == 0:
        flush()


def main():
    ap = argparse.ArgumentParser()
    ap.add_argument("--seconds", type=int, default=30)
    ap.add_argument("--worker", type=int, default=0)
    ap.add_argument("--out", required=True)
    a, rest = ap.parse_known_args()
    OUT[0] = a.out
    seed = int(os.environ.get("VERIF_SEED", "1")) or 1
    import tempfile
    corpus = tempfile.mkdtemp(prefix="fz17_", dir=os.path.dirname(a.out))
    # seed corpus: odd workers start empty, even workers get a few structured seeds
    if a.worker % 2 == 0:
        for i, s in enumerate([b"\x00\x00\x05\x05\x01\x10ggggg", b"\x01\x07\x03\x03\x01\x080000",
                               b"\x00\x06\x06\x06\x01\x11aa66aapv0fu0g2i3k"]):
            open(os.path.join(corpus, "s%d" % i), "wb").write(s)
    argv = [sys.argv[0], corpus, "-max_total_time=%d" % a.seconds, "-seed=%d" % seed, "-max_len=300",
            "-rss_limit_mb=2048", "-print_final_stats=0", "-verbosity=0"]
    flush()
    atheris.Setup(argv, target)
    atheris.Fuzz()  # does not return: libFuzzer exits the process; results are in --out


if __name__ == "__main__":
    main()
