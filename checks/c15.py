"""C15 - serializer combinators round-trip every value they accept.

Hypothesis draws (term, value) jointly (vlib.gen_comb), so values are in the term's domain by
construction.  Oracle: deserialize_problem(term, serialize_problem(term, v)) == canon(v) where
canon is the identity except for room partitions (rooms sorted by smallest cell, cells sorted,
per-room values carried along with their rooms); the low-level deserialize consumes exactly
the produced characters, also with junk appended.
"""

from vlib import gen_comb as GC
from vlib.harness import Failure, Stats, hyp_search, pmap, repo_frame_sig

LEVEL = "exploration"


def expected(term, v):
    """canonical form of python value v for `term` (one item position)"""
    k = term[0]
    if k == "Rooms":
        return GC.canon_rooms(v)
    if k == "ValuedRooms":
        rooms, values = v
        pairs = sorted((sorted(r), val) for r, val in zip(rooms, values))
        # canonical order is by smallest cell = by the sorted cell list
        return ([p[0] for p in pairs], [p[1] for p in pairs])
    if k == "Tupl":
        out = []
        for t, part in zip(term[1], v):
            out.append(expected_chunk(t, part))
        return tuple(out)
    if k == "Seq":
        if term[1][0] in ("Tupl", "Seq", "Grid", "Rooms", "ValuedRooms"):
            return [expected(term[1], x) for x in v]
        return list(v)
    if k == "Grid":
        if term[1][0] in ("Tupl", "Seq", "Grid", "Rooms", "ValuedRooms"):
            return [[expected(term[1], x) for x in row] for row in v]
        return [list(r) for r in v]
    return v


def expected_chunk(term, part):
    """a Tupl element holds the list of items one call consumes"""
    if term[0] in ("Tupl", "Seq", "Grid", "Rooms", "ValuedRooms"):
        return [expected(term, x) for x in part]
    return list(part)


def sort_key(v):
    return repr(v)


def body(case):
    from cspuz import problem_serializer as ps

    term = GC.build_term(case["term"])
    v = GC.to_py(case["value"])
    H, W = case["height"], case["width"]
    kind = case["term"][0]
    try:
        text = ps.serialize_problem(term, v, height=H, width=W)
    except Exception as e:
        raise Failure("serialize-raises|%s|%s" % (kind, repo_frame_sig(e)),
                      observed="%s: %s" % (type(e).__name__, str(e)[:120]))
    if not isinstance(text, str):
        raise Failure("serialize-not-str|" + kind, observed=type(text).__name__)
    want = expected(case["term"], v)
    try:
        back = ps.deserialize_problem(term, text, height=H, width=W)
    except Exception as e:
        raise Failure("deserialize-raises|%s|%s" % (kind, repo_frame_sig(e)),
                      observed="%s: %s" % (type(e).__name__, str(e)[:120]), expected=text)
    if back != want:
        sub = "|valued-rooms" if "ValuedRooms" in GC.kinds(case["term"]) else ""
        raise Failure("round-trip-differs|" + "+".join(sorted(GC.kinds(case["term"]) - {"OneOf"}))[:60] + sub,
                      observed=dict(text=text, back=GC.from_py(back)), expected=GC.from_py(want))
    # exact consumption, with and without trailing junk
    env = ps.CombinatorEnv(height=H, width=W)
    junk = case["junk"]
    if GC.ends_with_decint(case["term"]) and junk[:1].isdigit():
        junk = "/" + junk
    for extra in ("", junk):
        try:
            res = term.deserialize(env, text + extra, 0)
        except Exception as e:
            raise Failure("deserialize-with-suffix-raises|%s|%s" % (kind, repo_frame_sig(e)),
                          observed=str(e)[:100], expected=text + extra)
        if res is None or res[0] != len(text):
            raise Failure("consumed-length-wrong|" + kind, observed=None if res is None else res[0],
                          expected=dict(length=len(text), text=text + extra))
        if list(res[1]) != [want] and not (kind not in ("Tupl", "Seq", "Grid", "Rooms", "ValuedRooms")):
            raise Failure("low-level-value-differs|" + kind, observed=GC.from_py(res[1]))
    sec = case.get("second")
    if sec:
        v2 = GC.to_py(sec["value"])
        try:
            t2 = ps.serialize_problem(term, v2, height=sec["height"], width=sec["width"])
            b2 = ps.deserialize_problem(term, t2, height=sec["height"], width=sec["width"])
        except Exception as e:
            raise Failure("reused-combinator-raises|%s|%s" % (kind, repo_frame_sig(e)),
                          observed="%s: %s" % (type(e).__name__, str(e)[:120]),
                          expected="same combinator object, board %dx%d after %dx%d" % (sec["height"], sec["width"], H, W))
        if b2 != expected(case["term"], v2):
            raise Failure("round-trip-differs-on-reused-combinator|" + kind, observed=GC.from_py(b2),
                          expected=GC.from_py(expected(case["term"], v2)))
    return text


def classify(case, text):
    t = case["term"]
    fl = set(case["flags"])
    cl = ["kind:" + t[0]]
    for f in fl:
        cl.append("flag:" + f)
    d = GC.depth(t)
    if d >= 2:
        cl.append("depth>=2")
    boundary = False

    def scan(v):
        nonlocal boundary
        if isinstance(v, list):
            run = 0
            prev = object()
            for x in v:
                if isinstance(x, (int, str)) and x == prev:
                    run += 1
                    if run >= 20:
                        boundary = True
                else:
                    run = 1
                    prev = x
                scan(x)
        elif isinstance(v, dict):
            scan(v["tup"])
        elif isinstance(v, int) and not isinstance(v, bool) and v >= 16:
            boundary = True

    scan(case["value"])
    if "unsorted-rooms" in fl or ("MultiDigit" in fl):
        boundary = True
    if boundary:
        cl.append("boundary-value")
    nt = (d >= 2 or "rooms" in fl) and boundary
    return cl, nt


def shard(arg):
    seed, n = arg
    st = Stats()
    strat = GC.strategies()["case"]

    def b(case):
        try:
            text = body(case)
        except Failure:
            cl, nt = classify(case, None)
            st.case(canon=case, nontrivial=nt, classes=cl)
            raise
        cl, nt = classify(case, text)
        st.case(canon=case, nontrivial=nt, classes=cl, sample=dict(case, text=text) if nt else None)

    hyp_search(st, strat, b, seed=seed, max_examples=n, check="c15", rounds=6)
    return st


def sparse_strategy():
    """Grid boards that are blank or nearly blank, over item terms whose space runs pack as densely as
    the format allows (Spaces(space, c) for every c incl. '0' = 36 cells per character, IntSpaces using
    all 36 characters): the shortest texts a board can have"""
    from hypothesis import strategies as st

    B36 = "0123456789abcdefghijklmnopqrstuvwxyz"

    @st.composite
    def c(draw):
        which = draw(st.integers(0, 3))
        space = draw(st.sampled_from([-1, 0, "."]))
        if which == 0:
            term = ["Spaces", GC.from_py(space), draw(st.sampled_from(["0", "0", "1", "5", "g", "z"]))]
            clue = None
        elif which == 1:
            term = ["OneOf", [["HexInt"], ["Spaces", GC.from_py(space if space != 0 else -1), draw(st.sampled_from(["g", "h", "k", "z"]))]]]
            space = space if space != 0 else -1
            clue = st.sampled_from([0, 1, 15, 16, 255, 256, 4095])
        else:
            max_int = draw(st.sampled_from([0, 1, 2, 3, 5, 8, 11, 17, 35]))
            max_sp = 36 // (max_int + 1) - 1
            if draw(st.integers(0, 3)) == 0 and max_sp > 0:
                max_sp -= 1
            space = -1
            term = ["IntSpaces", -1, max_int, max_sp]
            clue = st.integers(0, max_int)
        h, w = draw(st.sampled_from([(6, 6), (4, 9), (1, 36), (36, 1), (72, 1), (1, 35), (5, 7), (1, 37), (6, 12), (9, 8),
                                     (10, 10), (7, 5), (2, 18), (3, 24), (12, 12), (1, 108)]))
        if draw(st.integers(0, 2)) == 0:
            h, w = draw(st.integers(1, 12)), draw(st.integers(1, 12))
        grid = [[space] * w for _ in range(h)]
        ncl = 0
        if clue is not None:
            ncl = draw(st.sampled_from([0, 0, 1, 1, 2, 3]))
            for _ in range(ncl):
                y, x = draw(st.integers(0, h - 1)), draw(st.integers(0, w - 1))
                if draw(st.booleans()):
                    y, x = draw(st.sampled_from([(0, 0), (h - 1, w - 1)]))
                grid[y][x] = draw(clue)
        if which >= 2:
            if grid[0][0] == space:
                grid[0][0] = draw(clue)  # IntSpaces runs need a number to hang on
                ncl += 1
            # without a Spaces alternative the runs between numbers are bounded by max_sp
            run = 0
            for y in range(h):
                for x in range(w):
                    if (y, x) == (0, 0):
                        continue
                    if grid[y][x] == space:
                        run += 1
                        if run > term[3]:
                            grid[y][x] = draw(clue)
                            run = 0
                    else:
                        run = 0
        explicit = draw(st.booleans())
        return dict(term=["Grid", term, h if explicit else None, w if explicit else None], value=GC.from_py(grid),
                    height=h, width=w, junk=draw(st.sampled_from(["", "/", "z", "0"])), flags=["sparse-board"],
                    cells=h * w, clues=ncl)

    return c()


def shard_sparse(arg):
    seed, n = arg
    st = Stats()

    def b(case):
        nt = case["cells"] >= 36
        cl = ["sparse-board", "sparse:" + case["term"][1][0]] + (["sparse:blank>=36"] if nt and case["clues"] == 0 else [])
        st.case(canon=case, nontrivial=nt, classes=cl, sample=case if nt and case["cells"] <= 40 else None)
        body(case)

    hyp_search(st, sparse_strategy(), b, seed=seed, max_examples=n, check="c15.sparse")
    return st


def run(ctx):
    ctx.rule = (
        "Hypothesis draws (combinator term, value) jointly: item-level terms (HexInt / IntSpaces / "
        "MultiDigit, Spaces, Dict in a OneOf with pairwise disjoint first-character classes, in any order) "
        "with item streams built from chunks (runs across the 1-character limit, values at 15/16/255/256/"
        "4095, partial digit groups), composites Tupl / Seq / Grid (explicit or environment size, incl. 1xN "
        "and Nx1) / nested Seq / Rooms / ValuedRooms with random connected partitions, rooms and cells in "
        "random order; oracle = round trip up to the canonical ordering of rooms + exact consumption with "
        "junk appended. non-trivial = (term depth >= 2 or a Rooms-family term) and a boundary value (run >= "
        "20, value >= 16, MultiDigit groups, unsorted rooms); distinct by case hash")
    ctx.assumptions = [
        "values are image-shaped (a Tupl element holds exactly the items one call consumes)",
        "Dict targets prefix-free and non-empty; DecInt only before a non-digit; OneOf alternatives have "
        "disjoint first-character sets; rooms orthogonally connected and in bounds; item-level terms that "
        "decode to several items (MultiDigit) are wrapped in Seq at the top level",
    ]
    k, n = (16, 1500) if ctx.quick() else (16, 15000)
    for r in pmap(shard, [(ctx.seed * 1000 + i, n) for i in range(k)]):
        ctx.stats.merge(r)
    for r in pmap(shard_sparse, [(ctx.seed * 1000 + 100 + i, 250 if ctx.quick() else 4000) for i in range(8)]):
        ctx.stats.merge(r)
    cl = ctx.stats.classes
    ctx.floor("entirely blank boards of >= 36 cells", cl["sparse:blank>=36"], 100)
    tot = max(1, ctx.stats.evaluations - cl["sparse-board"])
    ctx.floor("1xN / Nx1 boards (share)", round(cl["flag:single-row-or-column"] / tot, 3), 0.08)
    ctx.floor("unsorted rooms among Rooms cases",
              round(cl["flag:unsorted-rooms"] / max(1, cl["flag:rooms"]), 3), 0.25)
    ctx.floor("valued rooms cases", cl["flag:valued-rooms"], 50)
    ctx.floor("depth >= 2 (share)", round(cl["depth>=2"] / tot, 3), 0.2)
    ctx.floor("combinator object reused for another board size", cl["flag:combinator-reused-for-another-size"], 200)


def replay(ctx, rep):
    body(rep["case"])
