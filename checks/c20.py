"""C20 - the backend and encoding actually used are the ones configured.

Model-based: a generated configuration history (environment, importable solver modules, later
assignments to cspuz.config, per-call arguments) is applied to cspuz and to a small reference
model of the documented rules; after every step the observed dispatch (backend class
instantiated, external entry point invoked, presence of native graph operators in the posted
program) must be what the model says.
"""

import json
import os
import subprocess
import sys

from checks import c02
from vlib import fakesolver
from vlib.harness import Failure, Stats, hyp_search, pmap, repo_frame_sig

LEVEL = "exploration"

BACKENDS = ["sugar", "sugar_extended", "z3", "csugar", "enigma_csp", "cspuz_core"]
CLASS_OF = {"sugar": "SugarBackend", "sugar_extended": "SugarExtendedBackend", "z3": "Z3Backend",
            "csugar": "CSugarBackend", "enigma_csp": "EnigmaCSPBackend",
            "cspuz_core": "CspuzCoreBackend"}
MODULE_OF = {"csugar": "pycsugar", "enigma_csp": "enigma_csp", "cspuz_core": "cspuz_core"}
BOOL_STRINGS = ["1", "0", "true", "false", "TRUE", "False", "True", "yes", "on", "2", "", "no", " 1"]
ENV_KEYS = ["CSPUZ_DEFAULT_BACKEND", "CSPUZ_USE_GRAPH_PRIMITIVE",
            "CSPUZ_USE_GRAPH_DIVISION_PRIMITIVE", "CSPUZ_BACKEND_PATH"]


# ------------------------------------------------------------------ reference model
def ref_strtobool(s):
    t = s.lower()
    if t in ("true", "1"):
        return True
    if t in ("false", "0"):
        return False
    raise ValueError(s)


def ref_config(env, importable):
    """-> dict(default_backend, use_graph_primitive, use_graph_division_primitive, backend_path)
    or "ValueError"."""
    be = env.get("CSPUZ_DEFAULT_BACKEND", "auto")
    if be == "auto":
        for mod, name in (("cspuz_core", "cspuz_core"), ("enigma_csp", "enigma_csp"),
                          ("pycsugar", "csugar"), ("z3", "z3")):
            if mod in importable:
                be = name
                break
        else:
            be = "sugar"
    gp = be in ("csugar", "enigma_csp", "cspuz_core")
    gdp = be in ("enigma_csp", "cspuz_core")
    try:
        if "CSPUZ_USE_GRAPH_PRIMITIVE" in env:
            gp = ref_strtobool(env["CSPUZ_USE_GRAPH_PRIMITIVE"])
        if "CSPUZ_USE_GRAPH_DIVISION_PRIMITIVE" in env:
            gdp = ref_strtobool(env["CSPUZ_USE_GRAPH_DIVISION_PRIMITIVE"])
    except ValueError:
        return "ValueError"
    return dict(default_backend=be, use_graph_primitive=gp, use_graph_division_primitive=gdp,
                backend_path=env.get("CSPUZ_BACKEND_PATH"))


# ------------------------------------------------------------------ instrumentation
class patched_environ:
    def __init__(self, env):
        self.env = env

    def __enter__(self):
        self.saved = {k: os.environ.get(k) for k in ENV_KEYS}
        for k in ENV_KEYS:
            os.environ.pop(k, None)
        for k, v in self.env.items():
            os.environ[k] = v

    def __exit__(self, *a):
        for k, v in self.saved.items():
            if v is None:
                os.environ.pop(k, None)
            else:
                os.environ[k] = v
        return False


class spy_backends:
    """log every instantiation of the six backend classes and every Z3Backend.solve"""

    def __init__(self):
        self.log = []

    def __enter__(self):
        from cspuz.backend import sugar_like, z3 as zmod

        self.patched = []
        for mod, names in ((sugar_like, ["SugarBackend", "SugarExtendedBackend", "CSugarBackend",
                                         "EnigmaCSPBackend", "CspuzCoreBackend"]),
                           (zmod, ["Z3Backend"])):
            for n in names:
                cls = getattr(mod, n)
                orig = cls.__dict__.get("__init__")
                base_init = cls.__init__

                def make(cls=cls, base_init=base_init, n=n):
                    def __init__(this, *a, **k):
                        if type(this) is cls:
                            self.log.append(("init", n))
                        base_init(this, *a, **k)
                    return __init__

                cls.__init__ = make()
                self.patched.append((cls, orig))
        self.zcls = zmod.Z3Backend
        self.zsolve = zmod.Z3Backend.solve

        def zs(this):
            self.log.append(("entry", "z3"))
            return self.zsolve(this)

        zmod.Z3Backend.solve = zs
        return self

    def __exit__(self, *a):
        for cls, orig in self.patched:
            if orig is None:
                del cls.__init__
            else:
                cls.__init__ = orig
        self.zcls.solve = self.zsolve
        return False


def has_native(constraints):
    from cspuz.expr import Expr, Op

    def walk(e):
        if isinstance(e, Expr):
            if e.op in (Op.GRAPH_ACTIVE_VERTICES_CONNECTED, Op.GRAPH_DIVISION):
                return {e.op.name}
            out = set()
            for x in e.operands:
                out |= walk(x)
            return out
        return set()

    out = set()
    for c in constraints:
        out |= walk(c)
    return out


# ------------------------------------------------------------------ executing a history
def graph_call(func, ugp, acyclic):
    """-> (set of native ops in the posted program | 'RuntimeError', which config flag governs)"""
    from cspuz import BoolGridFrame, Solver, graph

    s = Solver()
    g = graph.Graph(4)
    for u, v in [(0, 1), (1, 2), (2, 3), (0, 3)]:
        g.add_edge(u, v)
    kw = {} if ugp is None else {"use_graph_primitive": ugp}
    try:
        if func == "active_vertices_connected":
            graph.active_vertices_connected(s, s.bool_array(4), g, acyclic=acyclic, **kw)
        elif func == "active_vertices_connected_grid":
            graph.active_vertices_connected(s, s.bool_array((2, 2)), acyclic=acyclic, **kw)
        elif func == "division_connected":
            graph.division_connected(s, s.int_array(4, 0, 1), 2, g)
        elif func == "active_edges_single_cycle":
            graph.active_edges_single_cycle(s, s.bool_array(4), g, **kw)
        elif func == "active_edges_single_cycle_frame":
            graph.active_edges_single_cycle(s, BoolGridFrame(s, 1, 2), **kw)
        elif func == "active_edges_single_path":
            graph.active_edges_single_path(s, s.bool_array(4), g, **kw)
        elif func == "active_edges_connected_crossable":
            graph.active_edges_connected_crossable(s, BoolGridFrame(s, 2, 2), single_cycle=acyclic, **kw)
        elif func == "not_adjacent_and_not_segmenting":
            graph.active_vertices_not_adjacent_and_not_segmenting(s, s.bool_array(4), g)
        elif func == "division_with_borders":
            graph.division_connected_variable_groups_with_borders(
                s, group_size=[None, 2, None, None], is_border=s.bool_array(4), graph=g, **kw)
        elif func == "division_with_borders_nosize":
            graph.division_connected_variable_groups_with_borders(
                s, group_size=None, is_border=s.bool_array(4), graph=g, **kw)
        elif func == "division_with_borders_allnone":
            graph.division_connected_variable_groups_with_borders(
                s, group_size=[None] * 4, is_border=list(s.bool_array(4)), graph=g, **kw)
        elif func == "division_with_borders_frame":
            # grid form: the documented argument types are a BoolInnerGridFrame and an IntArray2D
            from cspuz.grid_frame import BoolInnerGridFrame
            graph.division_connected_variable_groups_with_borders(
                s, group_size=s.int_array((2, 3), 1, 6), is_border=BoolInnerGridFrame(s, 2, 3), **kw)
        elif func == "division_variable_groups":
            graph.division_connected_variable_groups(s, graph=g, group_size=2)
        else:
            raise ValueError(func)
    except RuntimeError as e:
        if str(e) == "TODO":
            return "RuntimeError-TODO"
        raise
    return sorted(has_native(s.constraints))


GRAPH_FUNCS = ["active_vertices_connected", "active_vertices_connected_grid", "division_connected",
               "active_edges_single_cycle", "active_edges_single_cycle_frame",
               "active_edges_single_path", "active_edges_connected_crossable",
               "not_adjacent_and_not_segmenting", "division_with_borders", "division_variable_groups",
               "division_with_borders_nosize", "division_with_borders_allnone", "division_with_borders_frame"]
NO_EXPLICIT_ARG = {"division_connected", "not_adjacent_and_not_segmenting", "division_variable_groups"}


def expected_native(func, ugp, acyclic, cfg):
    if func == "division_variable_groups":
        return []
    if func.startswith("division_with_borders"):
        flag = cfg["use_graph_division_primitive"] if ugp is None else ugp
        return ["GRAPH_DIVISION"] if flag else []
    flag = cfg["use_graph_primitive"] if (ugp is None or func in NO_EXPLICIT_ARG) else ugp
    if func in ("active_vertices_connected", "active_vertices_connected_grid") and acyclic:
        return []
    if func == "active_edges_single_path" and not flag:
        return "RuntimeError-TODO"
    return ["GRAPH_ACTIVE_VERTICES_CONNECTED"] if flag else []


def run_history(case):
    import cspuz
    from cspuz import Solver
    from cspuz.configuration import Config

    env = {k: v for k, v in case["env"].items() if v is not None}
    importable = set(case["importable"])
    fakes = [m for m in ("cspuz_core", "enigma_csp", "pycsugar") if m in importable]
    block = [] if "z3" in importable else ["z3"]
    cfg_obj = cspuz.config
    saved = dict(vars(cfg_obj))
    out = dict(dispatch=0, disagree=False)
    try:
        with fakesolver.installed(fakes, block=block), patched_environ(env):
            want = ref_config(env, importable)
            try:
                new = Config()
                got = dict(default_backend=new.default_backend,
                           use_graph_primitive=new.use_graph_primitive,
                           use_graph_division_primitive=new.use_graph_division_primitive,
                           backend_path=new.backend_path)
            except ValueError:
                got = "ValueError"
            except Exception as e:
                raise Failure("Config-raises|" + repo_frame_sig(e), observed=str(e)[:100])
            if got != want:
                which = "strict-bool-parsing" if "ValueError" in (got, want) else next(
                    k for k in want if want[k] != got[k])
                raise Failure("Config-differs-from-documented-rules|" + which, observed=got, expected=want)
            if want == "ValueError":
                out["config_error"] = True
                return out
            for k, v in got.items():
                if type(v) is not type(want[k]):
                    raise Failure("Config-attribute-type|" + k, observed=repr(v), expected=repr(want[k]))
            # install into the singleton every module refers to
            for k, v in vars(new).items():
                setattr(cfg_obj, k, v)
            cfg = dict(got)
            for step in case["steps"]:
                if step[0] == "assign":
                    setattr(cfg_obj, step[1], step[2])
                    cfg[step[1]] = step[2]
                elif step[0] == "graph":
                    _, func, ugp, acyclic = step
                    try:
                        obs = graph_call(func, ugp, acyclic)
                    except Exception as e:
                        raise Failure("graph-call-raises|%s|%s" % (func, repo_frame_sig(e)),
                                      observed=str(e)[:100])
                    exp = expected_native(func, ugp, acyclic, cfg)
                    if obs != exp:
                        raise Failure("encoding-choice-wrong|%s|explicit=%s|acyclic=%s" % (func, ugp, acyclic),
                                      observed=obs, expected=dict(native=exp, config=cfg))
                    if ugp is not None and func not in NO_EXPLICIT_ARG:
                        flag = cfg["use_graph_division_primitive" if func.startswith("division_with_borders")
                                   else "use_graph_primitive"]
                        if flag != ugp:
                            out["disagree"] = True
                elif step[0] == "solve":
                    _, mode, barg = step
                    s = Solver()
                    x = s.bool_var()
                    y = s.int_var(0, 2)
                    s.ensure(x.then(y == 1))
                    s.add_answer_key(x, y)
                    if barg == "<none>":
                        bval, name = None, cfg["default_backend"]
                    elif barg.startswith("class:"):
                        from cspuz.backend import sugar_like, z3 as zmod
                        name = barg[6:]
                        bval = getattr(zmod if name == "z3" else sugar_like, CLASS_OF[name])
                    else:
                        bval, name = barg, barg
                    if barg != "<none>" and name != cfg["default_backend"]:
                        out["disagree"] = True
                    del fakesolver.CALLS[:]
                    with spy_backends() as spy, c02.patched_subprocess() as sp:
                        try:
                            res = (s.find_answer if mode == "find" else s.solve)(backend=bval)
                            err = None
                        except Exception as e:
                            err = e
                    calls = list(fakesolver.CALLS)
                    del fakesolver.CALLS[:]
                    if name not in BACKENDS:
                        if not isinstance(err, ValueError):
                            raise Failure("unknown-backend-name-not-rejected", observed=repr(err) if err else "returned",
                                          expected="ValueError")
                        if spy.log or calls:
                            raise Failure("unknown-backend-name-still-dispatched", observed=spy.log)
                        continue
                    inits = [n for k, n in spy.log if k == "init"]
                    if inits != [CLASS_OF[name]]:
                        raise Failure("wrong-backend-class-instantiated|" + ("per-call" if barg != "<none>" else "default"),
                                      observed=inits, expected=[CLASS_OF[name]])
                    mod = MODULE_OF.get(name)
                    if name == "z3" and "z3" not in importable:
                        # z3 named explicitly although `import z3` fails: ImportError (or, when the module
                        # was already loaded by an earlier solve, a normal answer) are both fine
                        if err is not None and not isinstance(err, ImportError):
                            raise Failure("missing-module-not-reported", observed=repr(err))
                        continue
                    if mod is not None and mod not in importable:
                        if not isinstance(err, ImportError):
                            raise Failure("missing-module-not-reported", observed=repr(err))
                        continue
                    if err is not None:
                        raise Failure("solve-raises|" + repo_frame_sig(err), observed=str(err)[:150])
                    if res is not True:
                        raise Failure("solve-result-wrong", observed=repr(res))
                    entries = sorted(set(e for e, _ in calls)) + sorted(set(n for k, n in spy.log if k == "entry"))
                    want_entry = {"sugar": "subprocess", "sugar_extended": "subprocess", "z3": "z3"}.get(name, mod)
                    if entries != [want_entry]:
                        raise Failure("wrong-entry-point-invoked", observed=entries, expected=[want_entry])
                    if want_entry == "subprocess":
                        argv = [cfg["backend_path"] or "sugar", "/dev/stdin"]
                        if any(c != argv for c in sp.calls):
                            raise Failure("subprocess-argv-wrong", observed=sp.calls[:2], expected=argv)
                        hashed = [("\n#" in t) for _, t in calls]
                        if mode == "solve" and name == "sugar_extended" and not all(hashed):
                            raise Failure("sugar_extended-without-deduction-line")
                        if (mode == "find" or name == "sugar") and any(hashed):
                            raise Failure("deduction-line-in-plain-mode|" + name)
                    out["dispatch"] += 1
    finally:
        for k in list(vars(cfg_obj)):
            if k not in saved:
                delattr(cfg_obj, k)
        for k, v in saved.items():
            setattr(cfg_obj, k, v)
        del fakesolver.CALLS[:]
    return out


# ------------------------------------------------------------------ fresh interpreter
FRESH = r"""
import json, os, sys
case = json.loads(sys.argv[1])
for m in ("cspuz_core", "enigma_csp", "pycsugar", "z3"):
    if m not in case["importable"]:
        sys.modules[m] = None
sys.path.insert(0, sys.argv[2])
try:
    import cspuz
    c = cspuz.config
    print(json.dumps(dict(default_backend=c.default_backend, use_graph_primitive=c.use_graph_primitive,
          use_graph_division_primitive=c.use_graph_division_primitive, backend_path=c.backend_path)))
except ValueError:
    print(json.dumps("ValueError"))
"""


def run_fresh(case):
    from vlib.harness import REPO, VERIF

    env = {k: v for k, v in os.environ.items() if k not in ENV_KEYS}
    for k, v in case["env"].items():
        if v is not None:
            env[k] = v
    env["PYTHONPATH"] = os.path.join(VERIF, "fakes")
    p = subprocess.run([sys.executable, "-c", FRESH, json.dumps(case), REPO], env=env,
                       stdout=subprocess.PIPE, stderr=subprocess.PIPE, text=True)
    lines = [l for l in p.stdout.splitlines() if l.strip()]
    if p.returncode != 0 or not lines:
        raise Failure("fresh-interpreter-import-fails", observed=p.stderr[-300:])
    got = json.loads(lines[-1])
    want = ref_config({k: v for k, v in case["env"].items() if v is not None}, set(case["importable"]))
    if got != want:
        raise Failure("import-time-config-differs", observed=got, expected=want)


# ------------------------------------------------------------------ generator
def case_strategy():
    from hypothesis import strategies as st

    be_env = st.sampled_from([None, None, "auto", "auto"] + BACKENDS + ["junk", "Z3", ""])
    bool_env = st.one_of(st.none(), st.none(), st.sampled_from(BOOL_STRINGS[:7]), st.sampled_from(BOOL_STRINGS))
    importable = st.sets(st.sampled_from(["cspuz_core", "enigma_csp", "pycsugar", "z3"])).map(sorted)
    barg = st.sampled_from(["<none>", "<none>"] + BACKENDS + ["class:" + b for b in BACKENDS] + ["junk", "auto"])

    step = st.one_of(
        st.builds(lambda a, v: ["assign", a, v],
                  st.sampled_from(["use_graph_primitive", "use_graph_division_primitive"]), st.booleans()),
        st.builds(lambda v: ["assign", "default_backend", v], st.sampled_from(BACKENDS + ["junk"])),
        st.builds(lambda v: ["assign", "backend_path", v], st.sampled_from([None, "/opt/x/sugar", "csugar-cli"])),
        st.builds(lambda m, b: ["solve", m, b], st.sampled_from(["find", "solve"]), barg),
        st.builds(lambda m, b: ["solve", m, b], st.sampled_from(["find", "solve"]), barg),
        st.builds(lambda f, u, a: ["graph", f, u, a], st.sampled_from(GRAPH_FUNCS),
                  st.sampled_from([None, True, False]), st.booleans()),
        st.builds(lambda f, u, a: ["graph", f, u, a], st.sampled_from(GRAPH_FUNCS),
                  st.sampled_from([None, True, False]), st.booleans()),
    )
    return st.fixed_dictionaries(dict(
        env=st.fixed_dictionaries({
            "CSPUZ_DEFAULT_BACKEND": be_env, "CSPUZ_USE_GRAPH_PRIMITIVE": bool_env,
            "CSPUZ_USE_GRAPH_DIVISION_PRIMITIVE": bool_env,
            "CSPUZ_BACKEND_PATH": st.sampled_from([None, None, "/usr/local/bin/sugar_ext.sh"])}),
        importable=importable,
        steps=st.lists(step, min_size=1, max_size=8)))


def classify(case, out):
    cl = []
    env = case["env"]
    imp = set(case["importable"])
    be = env["CSPUZ_DEFAULT_BACKEND"]
    disagree = out.get("disagree", False)
    # env vs availability
    if be in MODULE_OF and MODULE_OF[be] not in imp:
        disagree = True
    if be in (None, "auto") and len(imp) >= 2:
        cl.append("auto-detection-with-several-modules")
    if any(s[0] == "assign" for s in case["steps"]):
        cl.append("config-assignment")
        disagree = True
    if out.get("config_error"):
        cl.append("config-value-error")
    if env["CSPUZ_USE_GRAPH_PRIMITIVE"] is not None or env["CSPUZ_USE_GRAPH_DIVISION_PRIMITIVE"] is not None:
        cl.append("env-bool-override")
    if disagree:
        cl.append("sources-disagree")
    for s in case["steps"]:
        cl.append("step:" + s[0])
    return cl, disagree or out.get("config_error", False)


def shard(arg):
    seed, n, n_fresh = arg
    st = Stats()

    def b(case):
        try:
            out = run_history(case)
        except Failure:
            st.case(canon=case, nontrivial=True, classes=["failed"])
            raise
        cl, nt = classify(case, out)
        st.case(canon=case, nontrivial=nt, classes=cl, sample=case if nt else None)

    hyp_search(st, case_strategy(), b, seed=seed, max_examples=n, check="c20")
    if n_fresh:
        def bf(case):
            run_fresh(case)
            st.case(canon=["fresh", case["env"], case["importable"]], nontrivial=True,
                    classes=["fresh-interpreter"])

        hyp_search(st, case_strategy(), bf, seed=seed + 5, max_examples=n_fresh, check="c20.fresh",
                   shrink=False)
    return st


def run(ctx):
    ctx.rule = (
        "Hypothesis-generated configuration histories: environment (backend name incl. auto/junk/empty, "
        "13 spellings of the boolean flags, backend path) x importable subset of {cspuz_core, enigma_csp, "
        "pycsugar, z3} (sys.modules substitution) x up to 8 steps of config assignment / find_answer / "
        "solve with backend in {None, name, class, junk} / each graph function with use_graph_primitive in "
        "{None, True, False} x acyclic; compared step by step with a reference model of the documented "
        "rules; a few cases in a fresh interpreter for the import-time Config(). non-trivial = at least two "
        "sources disagree (env vs availability, config vs per-call, later assignment) or the configuration "
        "must be rejected; distinct by case hash")
    ctx.assumptions = [
        "external solvers are stand-ins; which one was invoked is read from their call logs, the class "
        "instantiated from wrapped __init__ methods",
        "a named backend whose module is not importable must still instantiate its class; the resulting "
        "ImportError is accepted",
    ]
    if ctx.quick():
        shards = [(ctx.seed * 1000 + i, 1500, 2 if i < 4 else 0) for i in range(8)]
    else:
        shards = [(ctx.seed * 1000 + i, 6000, 10) for i in range(16)]
    for r in pmap(shard, shards):
        ctx.stats.merge(r)
    cl = ctx.stats.classes
    tot = max(1, ctx.stats.evaluations)
    ctx.floor("share of cases where two sources disagree", round(cl["sources-disagree"] / tot, 3), 0.5)
    ctx.floor("fresh-interpreter cases", cl["fresh-interpreter"], 4)
    ctx.floor("solve steps", cl["step:solve"], 200)
    ctx.floor("graph steps", cl["step:graph"], 200)


def replay(ctx, rep):
    case = rep["case"]
    if rep.get("check") == "c20.fresh":
        run_fresh(case)
    else:
        run_history(case)
