"""C04 - active_vertices_connected holds exactly for connected (or tree) active sets.

M1 projection: the public function is called once on a fresh Solver with is_active = variables;
the posted program is read through the public data model and, with the independent RefSolver,
every one of the 2^n activity patterns is decided: admitted iff BFS says the active set is
connected (tree when acyclic).  Native encoding: the emitted atom is evaluated by the reference
semantics (CEGAR).  M2/M3 end to end: find_answer() (z3, or the cspuz_core stand-in for the
native form) with the pattern supplied as pinned variables, negated variables, expressions,
Python constants, BoolArray1D / list / BoolArray2D.
"""

import itertools

from vlib import encq, fakesolver, graphref, refsem
from vlib.harness import Failure, Stats, hyp_search, pmap, repo_frame_sig

LEVEL = "exploration"


def make_graph(n, edges):
    from cspuz import graph

    g = graph.Graph(n)
    for u, v in edges:
        g.add_edge(u, v)
    return g


def reference(n, edges, pattern, acyclic):
    if acyclic:
        return graphref.induced_tree(n, edges, pattern)
    return graphref.induced_connected(n, edges, pattern)


def spec_of(case):
    """-> (n, edges) of the reference graph"""
    if "grid" in case:
        h, w = case["grid"]
        return h * w, graphref.grid_edges(h, w)
    return case["n"], [tuple(e) for e in case["edges"]]


def post(case, solver, is_active):
    from cspuz import graph

    kw = dict(acyclic=case["acyclic"], use_graph_primitive=case["native"])
    if "grid" in case:
        graph.active_vertices_connected(solver, is_active, **kw)
    else:
        graph.active_vertices_connected(solver, is_active, make_graph(case["n"], case["edges"]), **kw)


def tag(case):
    return "%s|acyclic=%s|%s" % ("native" if case["native"] else "rank", case["acyclic"],
                                 "grid" if "grid" in case else "graph")


def projection_case(case, st):
    """all 2^n patterns of one (graph, acyclic, encoding); records statistics in st"""
    from cspuz import Solver

    n, edges = spec_of(case)
    s = Solver()
    if "grid" in case:
        arr = s.bool_array(tuple(case["grid"]))
    else:
        arr = s.bool_array(n)
    try:
        post(case, s, arr)
    except Exception as e:
        f = Failure("posting-raises|%s|%s" % (tag(case), repo_frame_sig(e)), observed=str(e)[:150])
        st.fail(f, case, "c04.projection")
        return
    q = encq.Query(s)
    ids = [v.id for v in arr]
    disconnected_graph = graphref.components(n, edges)[1] > 1
    for pat in graphref.patterns(n):
        want = reference(n, edges, pat, case["acyclic"])
        try:
            got = q.admits(ids, pat)
        except refsem.MalformedAtom as e:
            st.fail(Failure("native-atom-malformed|" + tag(case), observed=str(e)), case, "c04.projection")
            return
        k = sum(pat)
        nt = k >= 2 and len(edges) >= 1
        cl = ["projection", "proj:" + tag(case)]
        if disconnected_graph:
            cl.append("disconnected-graph")
        if "grid" in case and 1 in case["grid"]:
            cl.append("single-row-or-column-grid")
        sub = dict(case, pattern=[int(x) for x in pat])
        st.case(nontrivial=nt, counted=True, classes=cl, sample=sub if nt else None)
        if got != want:
            sig = ("admits-%s|" % ("non-tree" if case["acyclic"] else "disconnected") if got
                   else "rejects-%s|" % ("tree" if case["acyclic"] else "connected")) + tag(case)
            st.fail(Failure(sig, observed=got, expected=want), sub, "c04.projection")
    st.extra["cegar_iterations"] = st.extra.get("cegar_iterations", 0) + q.rs.cegar_iterations


def grown_case(case, st):
    """ONE Graph object serves several calls; edges are added with add_edge between the calls
    (case['stages'] = increasing edge counts).  After each stage all 2^n patterns are decided against
    the graph as it is at that moment, so anything the Graph object remembers from an earlier use shows."""
    from cspuz import Solver, graph

    n = case["n"]
    edges = [tuple(e) for e in case["edges"]]
    g = graph.Graph(n)
    k = 0
    for si, end in enumerate(case["stages"]):
        for u, v in edges[k:end]:
            g.add_edge(u, v)
        k = end
        cur = edges[:k]
        s = Solver()
        arr = s.bool_array(n)
        try:
            graph.active_vertices_connected(s, arr, g, acyclic=case["acyclic"], use_graph_primitive=case["native"])
        except Exception as e:
            st.fail(Failure("posting-raises|grown|%s|%s" % (tag(case), repo_frame_sig(e)), observed=str(e)[:150]),
                    case, "c04.grown")
            return
        q = encq.Query(s)
        ids = [v.id for v in arr]
        for pat in graphref.patterns(n):
            want = reference(n, cur, pat, case["acyclic"])
            got = q.admits(ids, pat)
            nt = si >= 1 and sum(pat) >= 2
            sub = dict(case, pattern=[int(x) for x in pat], stage=si)
            st.case(nontrivial=nt, counted=True, classes=["grown", "grown-stage>=1" if si else "grown-stage0"],
                    sample=sub if nt else None)
            if got != want:
                sig = ("admits-%s|" % ("non-tree" if case["acyclic"] else "disconnected") if got
                       else "rejects-%s|" % ("tree" if case["acyclic"] else "connected")) + "grown|" + tag(case)
                st.fail(Failure(sig, observed=got, expected=want), sub, "c04.grown")
                return


def shard_grown(arg):
    seed, n_graphs = arg
    st = Stats()
    from hypothesis import strategies as hs

    @hs.composite
    def c(draw):
        acyclic = draw(hs.booleans())
        g = draw(graph_strategy(6, not acyclic and draw(hs.booleans())))
        m = len(g["edges"])
        if acyclic:
            seen, es = set(), []
            for e in g["edges"]:
                if tuple(sorted(e)) not in seen:
                    seen.add(tuple(sorted(e)))
                    es.append(e)
            g = dict(g, edges=es)
            m = len(es)
        cuts = sorted(set(draw(hs.lists(hs.integers(0, m), min_size=1, max_size=3)))) if m else []
        stages = [x for x in cuts if x < m] + [m]
        return dict(g, acyclic=acyclic, native=draw(hs.booleans()), stages=stages)

    def body(case):
        st2 = Stats()
        grown_case(case, st2)
        st.merge_counts(st2)
        if st2.failures:
            sig, d = sorted(st2.failures.items())[0]
            raise Failure(sig, observed=d["observed"], expected=d["expected"], detail=d["case"])

    hyp_search(st, c(), body, seed=seed, max_examples=n_graphs, check="c04.grown")
    return st


FORMS = ["pinned", "negated", "expr", "const", "array1d", "mixed"]


def e2e_case(case):
    """one pattern, supplied in case['form'], decided by find_answer"""
    from cspuz import Solver
    from cspuz.array import BoolArray1D, BoolArray2D

    n, edges = spec_of(case)
    pat = [bool(x) for x in case["pattern"]]
    form = case["form"]
    flips = case.get("flips") or [False] * n
    s = Solver()
    if form == "const":
        act = list(pat)
    else:
        x = s.bool_array(n)
        act = []
        for i in range(n):
            if form in ("pinned", "array1d"):
                act.append(x[i])
                s.ensure(x[i] if pat[i] else ~x[i])
            elif form == "negated":
                act.append(~x[i])
                s.ensure(~x[i] if pat[i] else x[i])
            elif form == "expr":
                # x[i] xor c  with c a Python constant, x pinned to pattern xor c
                c = flips[i]
                act.append(x[i] ^ c)
                s.ensure(x[i] if (pat[i] != c) else ~x[i])
            else:  # mixed: constants on flipped positions, free-but-forced variables elsewhere
                if flips[i]:
                    act.append(pat[i])
                else:
                    act.append(x[i])
                    s.ensure(x[i] == pat[i])
    if "grid" in case:
        h, w = case["grid"]
        if form == "const":
            # the array form needs expressions; use constant-valued expressions
            y = s.bool_array(n)
            for i in range(n):
                s.ensure(y[i] == pat[i])
            act = list(y)
        is_active = BoolArray2D(act, (h, w))
    elif form == "array1d":
        is_active = BoolArray1D(act)
    else:
        is_active = act
    try:
        post(case, s, is_active)
        if case["native"] and not case["acyclic"]:
            with fakesolver.installed():
                res = s.find_answer(backend="cspuz_core")
            del fakesolver.CALLS[:]
        else:
            res = s.find_answer()
    except Exception as e:
        raise Failure("e2e-raises|%s|%s|%s" % (tag(case), form, repo_frame_sig(e)), observed=str(e)[:150])
    want = reference(n, edges, pat, case["acyclic"])
    if res != want:
        raise Failure(("e2e-admits-wrong|" if res else "e2e-rejects-valid|") + tag(case) + "|" + form,
                      observed=res, expected=want)


# ------------------------------------------------------------------ shards
def shard_enum(arg):
    cases = arg
    st = Stats()
    for case in cases:
        projection_case(case, st)
    return st


def graph_strategy(max_n, multi):
    from hypothesis import strategies as st

    @st.composite
    def g(draw):
        n = draw(st.integers(1, max_n))
        pairs = [(u, v) for u in range(n) for v in range(u + 1, n)]
        if not pairs:
            return dict(n=n, edges=[])
        dens = draw(st.sampled_from([0.25, 0.4, 0.6]))
        k = max(0, int(len(pairs) * dens + draw(st.integers(-1, 2))))
        edges = draw(st.lists(st.sampled_from(pairs), min_size=min(k, 1), max_size=max(1, min(k, 12)),
                              unique=not multi))
        if draw(st.booleans()):
            edges = [(v, u) if draw(st.booleans()) else (u, v) for u, v in edges]
        return dict(n=n, edges=[list(e) for e in edges])

    return g()


def shard_drawn(arg):
    seed, n_graphs, max_n = arg
    st = Stats()

    def body(case):
        st2 = Stats()
        projection_case(case, st2)
        st.merge_counts(st2)
        if st2.failures:
            sig, d = sorted(st2.failures.items())[0]
            raise Failure(sig, observed=d["observed"], expected=d["expected"], detail=d["case"])

    from hypothesis import strategies as hs

    strat = hs.builds(
        lambda g, a, nat: dict(g, acyclic=a, native=nat),
        hs.one_of(graph_strategy(max_n, False), graph_strategy(max_n, True)), hs.booleans(), hs.booleans()
    ).filter(lambda c: not (c["acyclic"] and len(set(map(lambda e: tuple(sorted(e)), c["edges"]))) != len(c["edges"])))
    hyp_search(st, strat, body, seed=seed, max_examples=n_graphs, check="c04.projection-drawn")
    return st


def shard_e2e(arg):
    seed, n_cases, max_n = arg
    st = Stats()
    from hypothesis import strategies as hs

    @hs.composite
    def c(draw):
        if draw(hs.integers(0, 3)) == 0:
            h = draw(hs.integers(1, 4))
            w = draw(hs.integers(1, max(1, 8 // h)))
            base = dict(grid=[h, w])
            n = h * w
        else:
            base = draw(graph_strategy(max_n, False))
            n = base["n"]
        pat = draw(hs.lists(hs.integers(0, 1), min_size=n, max_size=n))
        # bias towards connected patterns: half of the time grow a BFS region
        return dict(base, acyclic=draw(hs.booleans()), native=draw(hs.booleans()), pattern=pat,
                    form=draw(hs.sampled_from(FORMS)),
                    flips=draw(hs.lists(hs.booleans(), min_size=n, max_size=n)))

    def body(case):
        n, edges = spec_of(case)
        k = sum(case["pattern"])
        nt = k >= 2 and len(edges) >= 1
        st.case(canon=case, nontrivial=nt, classes=["e2e", "e2e-form:" + case["form"],
                                                    "e2e:" + tag(case)], sample=case if nt else None)
        e2e_case(case)

    hyp_search(st, c(), body, seed=seed, max_examples=n_cases, check="c04.e2e")
    return st


def winding_case(case, q=None, ids=None):
    h, w = case["grid"]
    if q is None:
        from cspuz import Solver

        s = Solver()
        arr = s.bool_array((h, w))
        post(case, s, arr)
        q = encq.Query(s)
        ids = [v.id for v in arr]
    act = {tuple(c) for c in case["cells"]}
    pat = [(y, x) in act for y in range(h) for x in range(w)]
    want = reference(h * w, graphref.grid_edges(h, w), pat, case["acyclic"])
    got = q.admits(ids, pat)
    if got != want:
        raise Failure(("admits-invalid|" if got else "rejects-valid|") + tag(case) + "|winding",
                      observed=got, expected=want, detail=dict(grid=[h, w], shape=case.get("shape")))
    return dict(n=len(act), want=want)


def shard_winding(arg):
    """boards beyond the exhaustive scope (12-30 cells) through the BoolArray2D form: long winding
    patterns (spiral, snake, ring, random induced paths) and their neighbours with one cell removed or
    added, decided on the posted program through one Query per (shape, acyclic)"""
    seed, shapes, n = arg
    st = Stats()
    from cspuz import Solver
    from hypothesis import strategies as hs
    from vlib import winding

    for (h, w) in shapes:
        for acyclic in (False, True):
            case0 = dict(grid=[h, w], acyclic=acyclic, native=False)
            s = Solver()
            arr = s.bool_array((h, w))
            try:
                post(case0, s, arr)
            except Exception as e:
                st.fail(Failure("posting-raises|%s|%s" % (tag(case0), repo_frame_sig(e)), observed=str(e)[:150]),
                        case0, "c04.winding")
                continue
            q = encq.Query(s)
            ids = [v.id for v in arr]
            edges = graphref.grid_edges(h, w)

            @hs.composite
            def pattern(draw):
                name, cells = winding.shapes(draw, hs, h, w)
                act = set(cells)
                k = draw(hs.integers(0, 3))
                if k == 1 and len(cells) >= 3:      # cut the shape in the middle
                    act.discard(cells[draw(hs.integers(1, len(cells) - 2))])
                elif k == 2:                         # one more cell somewhere (may close a cycle)
                    act.add((draw(hs.integers(0, h - 1)), draw(hs.integers(0, w - 1))))
                return dict(case0, shape=name, cells=sorted(list(c) for c in act))

            def body(case):
                out = winding_case(case, q, ids)
                st.case(canon=case, nontrivial=out["n"] >= 6,
                        classes=["winding", "winding:" + case["shape"], "winding:" + ("valid" if out["want"] else "invalid")],
                        sample=case if out["n"] >= 8 else None)

            hyp_search(st, pattern(), body, seed=seed + h * 31 + w + (7 if acyclic else 0), max_examples=n,
                       check="c04.winding", rounds=2)
    return st


def orientation_variants(edges):
    """the same simple graph with its edges entered ascending, descending and 'long edges reversed'"""
    out = [[list(e) for e in edges]]
    if edges:
        for v in ([[b, a] for a, b in edges], [[b, a] if b - a >= 2 else [a, b] for a, b in edges]):
            if v not in out:
                out.append(v)
    return out


def all_cases(max_exh_n, grid_cells, thorough):
    cases = []
    for n in range(1, max_exh_n + 1):
        for edges in graphref.all_simple_graphs(n):
            # the orientation in which an edge is entered must not matter: ascending, descending and
            # "long edges reversed" (which turns ascending triangles / 4-cycles into directed cycles)
            variants = [[list(e) for e in edges]]
            if edges:
                variants.append([[v, u] for u, v in edges])
                lr = [[v, u] if v - u >= 2 else [u, v] for u, v in edges]
                if lr not in variants:
                    variants.append(lr)
            for ev in variants:
                for ac in (False, True):
                    for nat in (False, True):
                        if ac and nat:
                            continue  # primitive is never used for acyclic; covered on grids/drawn graphs
                        cases.append(dict(n=n, edges=ev, acyclic=ac, native=nat))
    for h in range(1, grid_cells + 1):
        for w in range(1, grid_cells // h + 1):
            for ac in (False, True):
                for nat in (False, True):
                    cases.append(dict(grid=[h, w], acyclic=ac, native=nat))
    return cases


def run(ctx):
    ctx.rule = (
        "M1: every labelled simple graph on 1..4 (thorough 5) vertices in three edge orientations, Hypothesis-drawn simple and multi "
        "graphs up to 7 (9) vertices, every grid shape with h*w <= 11 (16) through the BoolArray2D form, x "
        "acyclic x {rank, native} encodings; for each, ALL 2^n activity patterns are decided on the posted "
        "program by an independent solver and compared with BFS (tree: connected and |E|=|V|-1). M2/M3: "
        "generated (graph, pattern, form of is_active) cases through find_answer on z3 / the cspuz_core "
        "stand-in. non-trivial = >= 2 active vertices in a graph with >= 1 edge; distinct by construction "
        "(enumeration) or by case hash")
    ctx.assumptions = [
        "acyclic mode uses simple graphs only; the 0-vertex graph is outside the domain",
        "native atoms are evaluated with the reference semantics of graph-active-vertices-connected "
        "(layout n m flags.. edges.., validated against the emitted text by C03)",
    ]
    quick = ctx.quick()
    cases = all_cases(4 if quick else 5, 11 if quick else 16, not quick)
    # cost-balanced chunks
    cases.sort(key=lambda c: -(2 ** spec_of(c)[0]))
    k = 16 if quick else 64
    chunks = [cases[i::k] for i in range(k)]
    for r in pmap(shard_enum, chunks):
        ctx.stats.merge(r)
    nd = 12 if quick else 60
    for r in pmap(shard_drawn, [(ctx.seed * 1000 + i, nd, 6 if i % 2 else 7) if quick else
                                (ctx.seed * 1000 + i, nd, 8 if i % 2 else 9) for i in range(8 if quick else 16)]):
        ctx.stats.merge(r)
    for r in pmap(shard_e2e, [(ctx.seed * 1000 + 50 + i, 250 if quick else 3000, 6) for i in range(8 if quick else 16)]):
        ctx.stats.merge(r)
    wshapes = [(3, 4), (4, 4), (3, 6), (5, 5), (4, 6), (5, 6), (2, 9), (6, 6)]
    for r in pmap(shard_winding, [(ctx.seed * 1000 + 80 + i, [sh], 30 if quick else 400) for i, sh in enumerate(wshapes)]):
        ctx.stats.merge(r)
    for r in pmap(shard_grown, [(ctx.seed * 1000 + 90 + i, 15 if quick else 150) for i in range(8 if quick else 16)]):
        ctx.stats.merge(r)
    cl = ctx.stats.classes
    ctx.floor("patterns on a Graph object that grew after an earlier use", cl["grown-stage>=1"], 1000)
    ctx.floor("winding patterns that are valid", cl["winding:valid"], 60)
    ctx.floor("winding patterns that are invalid", cl["winding:invalid"], 30)
    tot = max(1, cl["projection"])
    ctx.floor("projection patterns on disconnected graphs", cl["disconnected-graph"], 1000)
    ctx.floor("projection patterns on 1xN / Nx1 grids", cl["single-row-or-column-grid"], 1000)
    for f in FORMS:
        ctx.floor("e2e form " + f, cl["e2e-form:" + f], 40)


def replay(ctx, rep):
    case = rep["case"]
    if rep.get("check") == "c04.e2e":
        e2e_case(case)
        return
    if rep.get("check") == "c04.winding":
        winding_case(case)
        return
    if rep.get("check") == "c04.grown":
        st = Stats()
        c = dict(case)
        c.pop("pattern", None)
        c.pop("stage", None)
        grown_case(c, st)
        if st.failures:
            sig, d = sorted(st.failures.items())[0]
            raise Failure(sig, observed=d["observed"], expected=d["expected"])
        return
    st = Stats()
    c = dict(case)
    c.pop("pattern", None)
    projection_case(c, st)
    if st.failures:
        sig, d = sorted(st.failures.items())[0]
        raise Failure(sig, observed=d["observed"], expected=d["expected"])
