"""C03 - Sugar-family backends: emitted CSP text and parsed replies are faithful.

G1 emission: the exact string handed to the external solver is captured, parsed by vlib.sexp
(written from the Sugar syntax) and compared with the Solver's variables / posted constraints /
registered keys through the reference semantics.
G2 replies: scripted well-formed replies of both formats of CspuzSugarInterface.java must be
reflected into sol with the right types on the right variables.
G3 end to end: the C01 oracle re-run through the stand-in solver under all five names.
"""

import itertools
import json

from checks import c01, c02
from vlib import fakesolver, refsem, sexp
from vlib import gen_expr as G
from vlib.harness import Failure, HarnessError, Stats, hyp_search, pmap, repo_frame_sig

LEVEL = "exploration"
NAMES = ["sugar", "sugar_extended", "csugar", "enigma_csp", "cspuz_core"]
HAS_DEDUCTION = ["sugar_extended", "csugar", "enigma_csp", "cspuz_core"]


class backend_env:
    """make backend `name` answer through vlib.fakesolver (in-process)"""

    def __init__(self, name):
        self.name = name

    def __enter__(self):
        if self.name in ("sugar", "sugar_extended"):
            self.cm = c02.patched_subprocess()
        else:
            self.cm = fakesolver.installed()
        self.cm.__enter__()
        return self

    def __exit__(self, *a):
        return self.cm.__exit__(*a)


def val_of(salt, vid, decl):
    h = (salt * 2654435761 + (vid + 1) * 40503 + 977) & 0xFFFFFFFF
    h ^= h >> 13
    h = (h * 0x5BD1E995) & 0xFFFFFFFF
    h ^= h >> 15
    if decl[0] == "b":
        return bool(h & 1)
    lo, hi = decl[1], decl[2]
    m = h % 8
    if m == 0:
        return lo
    if m == 1:
        return hi
    return lo + (h >> 3) % (hi - lo + 1)


# ------------------------------------------------------------------ building programs
def build_session(case):
    """-> (Session, posted nodes (refsem ASTs of solver.constraints))"""
    from cspuz import graph

    sess = c01.Session()
    for d in case["decls"]:
        sess.declare(d)
    for c in case["constraints"]:
        sess.ensure(c)
    for a in case.get("atoms", []):
        g = graph.Graph(a["n"])
        for u, v in a["edges"]:
            g.add_edge(u, v)
        if a["kind"] == "conn":
            act = [G.build(r, sess.V) for r in a["active"]]
            graph.active_vertices_connected(sess.solver, act, g, use_graph_primitive=True)
        else:
            sizes = [None if r is None else G.build(r, sess.V) for r in a["sizes"]]
            borders = [G.build(r, sess.V) for r in a["borders"]]
            graph.division_connected_variable_groups_with_borders(
                sess.solver, group_size=sizes, is_border=borders, graph=g, use_graph_primitive=True)
    solver = sess.solver
    for k in case["keys"]:
        solver.add_answer_key(solver.variables[k])
    return sess


def truth_vector(node, assignments):
    out = []
    for a in assignments:
        out.append(bool(refsem.ev(node, a)))
    return tuple(out)


def check_emission(case):
    import warnings

    sess = build_session(case)
    solver = sess.solver
    name = case["backend"]
    mode = case["mode"]
    texts = []

    def script(entry, text):
        texts.append(text)
        if mode == "find":
            return "s UNSATISFIABLE\n"
        if "\n#" in "\n" + text:
            return "unsat\n"
        return "s UNSATISFIABLE\n"

    fakesolver.SCRIPT = script
    try:
        with backend_env(name), warnings.catch_warnings():
            warnings.simplefilter("ignore")
            try:
                res = solver.find_answer(backend=name) if mode == "find" else solver.solve(backend=name)
            except Exception as e:
                raise Failure("emission-exception|" + repo_frame_sig(e),
                              observed="%s: %s" % (type(e).__name__, str(e)[:200]))
    finally:
        fakesolver.SCRIPT = None
        del fakesolver.CALLS[:]
    if res is not False:
        raise Failure("unsat-reply-not-reported-false|" + mode, observed=repr(res), expected=False)
    if len(texts) != 1:
        raise Failure("unexpected-number-of-solver-calls", observed=len(texts), expected=1)
    text = texts[0]
    if not isinstance(text, str):
        raise Failure("emitted-not-str", observed=type(text).__name__)
    try:
        text.encode("ascii")
    except UnicodeEncodeError:
        raise Failure("emitted-non-ascii")
    try:
        prog = sexp.parse(text)
    except sexp.SexpError as e:
        raise Failure("emitted-text-unparseable", observed=str(e)[:200], expected="Sugar CSP syntax")
    # declarations
    want_decls = sorted(refsem.decls_of(solver.variables))
    if sorted(prog.decls) != want_decls:
        raise Failure("declarations-differ", observed=sorted(prog.decls)[:12], expected=want_decls[:12])
    # answer keys
    expect_hash = mode == "solve" and name in HAS_DEDUCTION
    if expect_hash:
        if prog.keys is None:
            raise Failure("answer-key-line-missing|" + name)
        want_keys = sorted(("b%d" if d[0] == "b" else "i%d") % d[1]
                           for d, k in zip(refsem.decls_of(solver.variables), solver.is_answer_key) if k)
        if sorted(prog.keys) != want_keys:
            raise Failure("answer-keys-differ", observed=sorted(prog.keys), expected=want_keys)
    elif prog.keys is not None:
        raise Failure("answer-key-line-unexpected|%s|%s" % (name, mode), observed=prog.keys)
    # constraints: the emitted lines, taken together, must denote the conjunction of what was written.
    # Lines are not required to correspond one-to-one to posted constraints (a duplicate left out or
    # a conjunction split over two lines denotes the same CSP).
    posted = [refsem.from_cspuz(c) for c in solver.constraints]
    decls = refsem.decls_of(solver.variables)
    if refsem.domain_product(decls) <= 512:
        assignments = [dict(zip([d[1] for d in decls], vals))
                       for vals in itertools.product(*[refsem.domain(d) for d in decls])]
        exhaustive = True
    else:
        assignments = []
        for salt in range(case["salt"], case["salt"] + 48):
            assignments.append({d[1]: val_of(salt, d[1], d[:1] + d[2:]) for d in decls})
        exhaustive = False

    def written_at(a):
        """truth values of the written constraints and atoms (their intended meaning: recipes read by
        gen_expr.rev, atoms by the graph semantics of the case) under assignment a"""
        B = [a[v.id] for v in sess.V.b]
        I = [a[v.id] for v in sess.V.i]
        out = [bool(G.rev(r, B, I)) for r in case["constraints"]]
        for a_ in case.get("atoms", []):
            edges = [tuple(e) for e in a_["edges"]]
            if a_["kind"] == "conn":
                out.append(bool(refsem.active_vertices_connected(
                    a_["n"], edges, [bool(G.rev(r, B, I)) for r in a_["active"]])))
            else:
                out.append(bool(refsem.graph_division(
                    a_["n"], edges, [None if r is None else G.rev(r, B, I) for r in a_["sizes"]],
                    [bool(G.rev(r, B, I)) for r in a_["borders"]])))
        return out

    def emitted_at(a):
        try:
            return [bool(refsem.ev(n, a)) for n in prog.constraints]
        except (ValueError, IndexError, TypeError, KeyError) as e:
            raise Failure("emitted-graph-atom-malformed", observed="%s: %s" % (type(e).__name__, e),
                          expected="n m flags.. edges.. layout")

    W = [written_at(a) for a in assignments]
    E = [emitted_at(a) for a in assignments]
    P = [[bool(refsem.ev(n, a)) for n in posted] for a in assignments]
    # the Solver's own store must mean what was written (conjunction; per constraint when it has one
    # entry per written constraint, which is what lets a wrong tree be named)
    for k, a in enumerate(assignments):
        if all(P[k]) != all(W[k]):
            raise Failure("dsl-tree-differs-from-written-meaning", observed=dict(assignment=sorted(a.items())))
    want = sorted(set(zip(*W))) if W and W[0] else []
    got = sorted(set(zip(*E))) if E and E[0] else []
    restructured = False
    if got != want:
        # not the same set of truth functions: decide the conjunctions exactly
        restructured = True
        for k, a in enumerate(assignments):
            if all(E[k]) != all(W[k]):
                raise Failure("emitted-constraint-denotes-something-else",
                              observed=dict(text=text[-400:], assignment=sorted(a.items()),
                                            emitted=all(E[k]), written=all(W[k])),
                              expected="the conjunction of the posted constraints")
        if not exhaustive:
            from vlib import refz3

            rs = refz3.RefSolver(decls)
            m = rs.check([("XOR", ("AND",) + tuple(prog.constraints), ("AND",) + tuple(posted))])
            if m is not None:
                a = rs.assignment(m)
                if all(emitted_at(a)) == all(written_at(a)):
                    raise HarnessError("refz3 counterexample not confirmed by refsem: %r" % (a,))
                raise Failure("emitted-constraint-denotes-something-else",
                              observed=dict(text=text[-400:], assignment=sorted(a.items()),
                                            emitted=all(emitted_at(a)), written=all(written_at(a))),
                              expected="the conjunction of the posted constraints")
    # graph atoms: all assignments of their own operands.  Every posted atom needs an emitted atom of
    # the same operator with the same truth function; failing that the conjunctions are decided.
    dm = {d[1]: d for d in decls}
    for pn in posted:
        if not pn[0].startswith("GRAPH_"):
            continue
        ids = sorted(refsem.free_ids(pn))
        if refsem.domain_product([dm[i] for i in ids]) > 1024:
            continue
        own = [dict(zip(ids, vals)) for vals in itertools.product(*[refsem.domain(dm[i]) for i in ids])]
        pv = truth_vector(pn, own)
        cands = [tn for tn in prog.constraints if tn[0] == pn[0]]
        try:
            if any(truth_vector(tn, own) == pv for tn in cands if refsem.free_ids(tn) <= set(ids)):
                continue
        except (ValueError, IndexError, TypeError, KeyError) as e:
            raise Failure("emitted-graph-atom-malformed", observed="%s: %s" % (type(e).__name__, e),
                          expected="n m flags.. edges.. layout")
        from vlib import refz3

        rs = refz3.RefSolver(decls)
        m = rs.check([("XOR", ("AND",) + tuple(prog.constraints), ("AND",) + tuple(posted))])
        restructured = True
        if m is not None:
            a = rs.assignment(m)
            if all(emitted_at(a)) == all(bool(refsem.ev(n, a)) for n in posted):
                raise HarnessError("refz3 counterexample not confirmed by refsem: %r" % (a,))
            raise Failure("emitted-graph-atom-denotes-something-else|" + pn[0],
                          observed=dict(assignment=sorted(a.items())))
        break
    return dict(exhaustive=exhaustive, nvars=len(decls), atoms=len(case.get("atoms", [])),
                restructured=restructured, satisfiable=any(all(w) for w in W))


# ------------------------------------------------------------------ replies
def check_reply(case):
    import warnings

    sess = build_session(case)
    solver = sess.solver
    name = case["backend"]
    mode = case["mode"]
    decls = refsem.decls_of(solver.variables)
    names = {d[1]: ("b%d" if d[0] == "b" else "i%d") % d[1] for d in decls}
    rep = case["reply"]

    def fmt(v):
        return ("true" if v else "false") if isinstance(v, bool) else str(v)

    if mode == "find":
        if rep["kind"] == "unsat":
            reply = "s UNSATISFIABLE\n"
        else:
            vals = rep["values"]  # per variable position
            lines = [(d, vals[k]) for k, d in enumerate(decls)]
            if rep.get("order") == "java":
                lines = [x for x in lines if x[0][0] == "i"] + [x for x in lines if x[0][0] == "b"]
            else:
                lines = [lines[i] for i in rep["order"]]
            reply = "s SATISFIABLE\n" + "".join("a %s\t%s\n" % (names[d[1]], fmt(v)) for d, v in lines) + "a\n"
    else:
        if rep["kind"] == "unsat":
            reply = "unsat\n"
        else:
            dec = rep["decided"]  # {position: value}
            lines = [(decls[int(k)], v) for k, v in sorted(dec.items(), key=lambda kv: int(kv[0]))]
            lines = [x for x in lines if x[0][0] == "i"] + [x for x in lines if x[0][0] == "b"]
            reply = "sat\n" + "".join("%s %s\n" % (names[d[1]], fmt(v)) for d, v in lines)

    fakesolver.SCRIPT = lambda entry, text: reply
    for v in solver.variables:
        v.sol = "stale"
    try:
        with backend_env(name), warnings.catch_warnings():
            warnings.simplefilter("ignore")
            try:
                res = solver.find_answer(backend=name) if mode == "find" else solver.solve(backend=name)
            except Exception as e:
                raise Failure("reply-parse-exception|%s|%s" % (mode, repo_frame_sig(e)),
                              observed="%s: %s" % (type(e).__name__, str(e)[:200]), expected=reply[:200])
    finally:
        fakesolver.SCRIPT = None
        del fakesolver.CALLS[:]
    sat = rep["kind"] != "unsat"
    if res is not sat:
        raise Failure("reply-verdict-wrong|" + mode, observed=repr(res), expected=sat)
    if not sat:
        # an unsat reply decides nothing: no stale value from an earlier solve may survive on the
        # variables the reply is about (all variables in answer-finder mode, the keys in deduction mode)
        for k, v in enumerate(solver.variables):
            if (mode == "find" or solver.is_answer_key[k]) and v.sol is not None:
                raise Failure("stale-sol-after-unsat-reply|" + mode, observed=dict(var=names[v.id], sol=repr(v.sol)),
                              expected=None)
        return
    order_note = "" if rep.get("order", "java") == "java" else "|permuted-lines"
    if mode == "find":
        for k, v in enumerate(solver.variables):
            want = rep["values"][k]
            if v.sol != want or type(v.sol) is not type(want):
                raise Failure("find-reply-value-wrong" + order_note,
                              observed=dict(var=names[v.id], sol=repr(v.sol)), expected=repr(want))
    else:
        for k, v in enumerate(solver.variables):
            if not solver.is_answer_key[k]:
                continue
            if str(k) in rep["decided"]:
                want = rep["decided"][str(k)]
                if v.sol != want or type(v.sol) is not type(want):
                    raise Failure("deduction-reply-value-wrong",
                                  observed=dict(var=names[v.id], sol=repr(v.sol)), expected=repr(want))
            elif v.sol is not None:
                raise Failure("deduction-undecided-key-not-None",
                              observed=dict(var=names[v.id], sol=repr(v.sol)), expected=None)


# ------------------------------------------------------------------ end to end
def check_e2e(case):
    name = case["backend"]
    sub = case.get("subprocess", False)
    import cspuz

    saved = cspuz.config.backend_path
    try:
        if sub:
            cspuz.config.backend_path = c02.FAKE_SUGAR
            if case.get("timeout"):
                # the branch of run_subprocess that is taken when a timeout is configured and psutil is
                # installed (psutil is not available offline: a stand-in module, only consulted when the
                # timeout expires, which it does not here)
                import types
                from cspuz.backend import _subproc

                saved_t = (cspuz.config.solver_timeout, getattr(_subproc, "_PSUTIL_AVAILABLE", None),
                           getattr(_subproc, "psutil", None))
                cspuz.config.solver_timeout = 600.0
                _subproc._PSUTIL_AVAILABLE = True
                _subproc.psutil = types.ModuleType("psutil")
                import os
                os.environ["FAKE_SUGAR_STDERR"] = "1"   # the stand-in then also writes diagnostics to stderr
                try:
                    c01.run_program(case["program"], backend=name)
                finally:
                    os.environ.pop("FAKE_SUGAR_STDERR", None)
                    cspuz.config.solver_timeout, _subproc._PSUTIL_AVAILABLE = saved_t[0], saved_t[1]
                    if saved_t[2] is None:
                        del _subproc.psutil
                    else:
                        _subproc.psutil = saved_t[2]
            else:
                c01.run_program(case["program"], backend=name)
        else:
            with backend_env(name):
                c01.run_program(case["program"], backend=name)
    finally:
        cspuz.config.backend_path = saved
        del fakesolver.CALLS[:]


# ------------------------------------------------------------------ generators
def strategies():
    from hypothesis import strategies as st

    S = G.strategies()

    @st.composite
    def program(draw, min_vars=1, max_vars=14):
        n = draw(st.one_of(st.integers(min_vars, 6), st.integers(min_vars, max_vars)))
        decls = [draw(S["decl"]("enum")) for _ in range(n)]
        nb = sum(1 for d in decls if d[0] == "b")
        ni = n - nb
        cons = [draw(S["bool_recipe"](nb, ni, 3)) for _ in range(draw(st.integers(0, 5)))]
        atoms = []
        for _ in range(draw(st.sampled_from([0, 0, 1, 1, 2]))):
            gn = draw(st.integers(1, 5))
            pairs = [(u, v) for u in range(gn) for v in range(u + 1, gn)]
            edges = [list(p) for p in draw(st.lists(st.sampled_from(pairs), max_size=7))] if pairs else []
            if draw(st.booleans()):
                act = []
                for _v in range(gn):
                    if nb and draw(st.integers(0, 3)) > 0:
                        k = draw(st.integers(0, nb - 1))
                        act.append(["bvar", k] if draw(st.booleans()) else ["not", ["bvar", k]])
                    else:
                        act.append(["blit", draw(st.booleans())])
                atoms.append(dict(kind="conn", n=gn, edges=edges, active=act))
            else:
                sizes = []
                for _v in range(gn):
                    c = draw(st.integers(0, 3))
                    if c == 0:
                        sizes.append(None)
                    elif c == 1 and ni:
                        sizes.append(["ivar", draw(st.integers(0, ni - 1))])
                    else:
                        sizes.append(["ilit", draw(st.integers(1, gn))])
                borders = []
                for _e in edges:
                    if nb and draw(st.integers(0, 3)) > 0:
                        borders.append(["bvar", draw(st.integers(0, nb - 1))])
                    else:
                        borders.append(["blit", draw(st.booleans())])
                atoms.append(dict(kind="div", n=gn, edges=edges, sizes=sizes, borders=borders))
        keys = sorted(draw(st.sets(st.integers(0, n - 1), max_size=n)))
        return dict(decls=decls, constraints=cons, atoms=atoms, keys=keys)

    @st.composite
    def emission(draw):
        p = draw(program())
        p.update(group="emission", backend=draw(st.sampled_from(NAMES)),
                 mode=draw(st.sampled_from(["find", "solve"])), salt=draw(st.integers(0, 10**6)))
        return p

    @st.composite
    def reply(draw):
        p = draw(program(min_vars=1))
        p["constraints"] = p["constraints"][:1]
        p["atoms"] = []
        mode = draw(st.sampled_from(["find", "solve"]))
        name = draw(st.sampled_from(NAMES if mode == "find" else HAS_DEDUCTION))
        n = len(p["decls"])

        def value(d):
            if d[0] == "b":
                return draw(st.booleans())
            return draw(st.one_of(st.integers(d[1], d[2]), st.just(d[1]), st.just(d[2])))

        if draw(st.integers(0, 5)) == 0:
            rep = dict(kind="unsat")
        elif mode == "find":
            order = "java" if draw(st.integers(0, 2)) > 0 else list(draw(st.permutations(list(range(n)))))
            rep = dict(kind="sat", values=[value(d) for d in p["decls"]], order=order)
        else:
            keys = p["keys"]
            dec = {}
            for k in keys:
                if draw(st.booleans()):
                    dec[str(k)] = value(p["decls"][k])
            rep = dict(kind="sat", decided=dec)
        p.update(group="reply", backend=name, mode=mode, reply=rep)
        return p

    @st.composite
    def e2e(draw):
        cls = draw(st.sampled_from(["enum", "enum", "sat_wide", "unsat_wide", "history"]))
        prog = draw(c01.program_strategy()[cls])
        return dict(group="e2e", program=prog, backend=draw(st.sampled_from(NAMES)))

    return dict(emission=emission(), reply=reply(), e2e=e2e())


def body(case):
    g = case["group"]
    if g == "emission":
        return check_emission(case)
    if g == "reply":
        return check_reply(case)
    return check_e2e(case)


def shard(arg):
    seed, n_em, n_rep, n_e2e, n_sub = arg
    st = Stats()
    strat = strategies()

    def b_em(case):
        info = body(case)
        nb = sum(1 for d in case["decls"] if d[0] == "b")
        ni = len(case["decls"]) - nb
        nt = (len(case["decls"]) >= 11 and nb and ni) or bool(case["atoms"])
        cl = ["emission", "emission:" + case["backend"], "emission:" + case["mode"]]
        if case["atoms"]:
            cl.append("emission:graph-atom")
        if len(case["decls"]) >= 11:
            cl.append("emission:id>=10")
        if info["exhaustive"]:
            cl.append("emission:all-assignments")
        if info["satisfiable"]:
            cl.append("emission:satisfiable-seen")
        if info["restructured"]:
            cl.append("emission:lines-not-one-to-one")
        st.case(canon=case, nontrivial=bool(nt), classes=cl, sample=case if nt else None)

    def b_rep(case):
        rep = case["reply"]
        neg = rep["kind"] == "sat" and any(
            isinstance(v, int) and not isinstance(v, bool) and v < 0
            for v in (rep.get("values") or list(rep.get("decided", {}).values())))
        undec = case["mode"] == "solve" and rep["kind"] == "sat" and len(rep["decided"]) < len(case["keys"])
        cl = ["reply", "reply:" + case["mode"], "reply:" + rep["kind"]]
        if neg:
            cl.append("reply:negative-int")
        if undec:
            cl.append("reply:undecided-key")
        if len(case["decls"]) >= 11:
            cl.append("reply:id>=10")
        st.case(canon=case, nontrivial=bool(neg or undec), classes=cl,
                sample=case if (neg or undec) else None)
        body(case)

    def b_e2e(case):
        body(case)
        st.case(canon=case, nontrivial=True, classes=["e2e", "e2e:" + case["backend"]])

    def b_sub(case):
        case = dict(case, subprocess=True, timeout=bool(len(json.dumps(case, default=repr)) % 2))
        body(case)
        st.case(canon=case, nontrivial=True, classes=["e2e-real-subprocess"] + (["e2e-real-subprocess:timeout-configured"] if case["timeout"] else []))

    hyp_search(st, strat["emission"], b_em, seed=seed, max_examples=n_em, check="c03.emission")
    hyp_search(st, strat["reply"], b_rep, seed=seed + 1, max_examples=n_rep, check="c03.reply")
    hyp_search(st, strat["e2e"], b_e2e, seed=seed + 2, max_examples=n_e2e, check="c03.e2e")
    if n_sub:
        sub = strat["e2e"].filter(lambda c: c["backend"] in ("sugar", "sugar_extended"))
        hyp_search(st, sub, b_sub, seed=seed + 3, max_examples=n_sub, check="c03.e2e-subprocess",
                   shrink=False)
    return st


def run(ctx):
    ctx.rule = (
        "three Hypothesis-driven sub-checks over the five backend names: (emission) programs from DSL "
        "recipes plus native graph atoms produced by cspuz.graph with use_graph_primitive=True, mixed "
        "bool/int ids up to 13, random key subsets; the captured text is parsed independently and its "
        "declarations / key line compared with the Solver, and the conjunction of its constraint lines "
        "compared with the conjunction of the written constraints (same set of truth functions over all or 48 "
        "sampled assignments; otherwise decided exactly by enumeration or by the reference z3 translation); (reply) scripted well-formed replies of both Java formats; "
        "(e2e) the C01 oracle through the stand-in solver incl. a real subprocess. non-trivial = program "
        "with >=11 variables of both sorts or a graph atom / reply with a negative integer or an undecided "
        "key / every e2e case; distinct by case hash")
    ctx.assumptions = [
        "the real Sugar / csugar / cspuz_core binaries are not available offline; CspuzSugarInterface.java is "
        "read as the specification of the reply format and is not executed",
        "line order, duplicates and the split of a conjunction over lines are not asserted: the emitted lines are "
        "held to denote the conjunction of the posted constraints",
        "a failure that shows only with permuted assignment lines is reported with the |permuted-lines tag",
    ]
    if ctx.quick():
        shards = [(ctx.seed * 1000 + i, 150, 150, 60, 3 if i < 4 else 0) for i in range(8)]
    else:
        shards = [(ctx.seed * 1000 + i, 4000, 4000, 1200, 20) for i in range(16)]
    for r in pmap(shard, shards):
        ctx.stats.merge(r)
    cl = ctx.stats.classes
    ctx.floor("emission cases with a graph atom", round(cl["emission:graph-atom"] / max(1, cl["emission"]), 3), 0.25)
    ctx.floor("emission cases whose conjunction is satisfiable (a changed line changes the denotation)",
              round(cl["emission:satisfiable-seen"] / max(1, cl["emission"]), 3), 0.25)
    ctx.floor("emission cases with ids >= 10", round(cl["emission:id>=10"] / max(1, cl["emission"]), 3), 0.06)
    ctx.floor("replies with a negative integer", round(cl["reply:negative-int"] / max(1, cl["reply"]), 3), 0.15)
    ctx.floor("replies with an undecided key", round(cl["reply:undecided-key"] / max(1, cl["reply"]), 3), 0.10)
    ctx.floor("e2e through a real subprocess", cl["e2e-real-subprocess"], 5)


def replay(ctx, rep):
    body(rep["case"])
