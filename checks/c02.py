"""C02 - solve() reports exactly the facts common to all solutions.

Oracle: the full solution set S by brute force over the declared domains (recipes evaluated
with the ordinary meaning).  Backends: z3 (cspuz' refute-and-resolve loop), sugar (same loop
over the text backend, answered by the stand-in solver), sugar_extended / csugar /
enigma_csp / cspuz_core (native deduction reply of the stand-in).
"""

import itertools
import warnings

from checks import c01
from vlib import fakesolver
from vlib import gen_expr as G
from vlib.harness import Failure, Stats, hyp_search, pmap, repo_frame_sig

LEVEL = "exploration"
NATIVE = ["sugar_extended", "csugar", "enigma_csp", "cspuz_core"]
LOOP = ["sugar", "z3"]
FAKE_SUGAR = "/verif/fakes/fake_sugar"


def all_models(sess):
    bd, idom = sess.domains()
    nb = len(bd)
    out = []
    for vals in itertools.product(*(list(bd) + idom)):
        B = vals[:nb]
        I = vals[nb:]
        if all(G.rev(c, B, I) for c in sess.constraints):
            out.append((B, I))
    return out


class LoopBudget(Exception):
    pass


class counted_z3:
    """count Z3Backend.solve calls: cspuz' refinement loop demotes at least one key per
    satisfiable re-solve, so more than |keys|+2 solves means it does not terminate."""

    def __init__(self, budget):
        self.budget = budget
        self.n = 0

    def __enter__(self):
        from cspuz.backend import z3 as zmod

        self.cls = zmod.Z3Backend
        self.orig = zmod.Z3Backend.solve
        outer = self

        def solve(this):
            outer.n += 1
            if outer.n > outer.budget:
                raise LoopBudget()
            return outer.orig(this)

        zmod.Z3Backend.solve = solve
        return self

    def __exit__(self, *a):
        self.cls.solve = self.orig
        return False


class patched_subprocess:
    """route cspuz.backend.sugar_like.run_subprocess to the in-process stand-in"""

    def __init__(self, budget=10**9, real=False):
        self.calls = []
        self.budget = budget
        self.real = real

    def __enter__(self):
        from cspuz.backend import sugar_like

        self.mod = sugar_like
        self.orig = sugar_like.run_subprocess

        def fake(args, input, timeout=None):
            self.calls.append(list(args))
            if len(self.calls) > self.budget:
                raise LoopBudget()
            if self.real:
                return self.orig(args, input, timeout)
            return fakesolver.call("subprocess", input)

        sugar_like.run_subprocess = fake
        return self

    def __exit__(self, *a):
        self.mod.run_subprocess = self.orig
        return False


def run_case(case):
    import cspuz

    sess = c01.Session()
    for d in case["decls"]:
        sess.declare(d)
    for c in case["constraints"]:
        sess.ensure(c)
    solver = sess.solver
    keys = [solver.variables[k] for k in case["keys"]]
    form = case.get("key_form", "scalars")
    if form == "scalars":
        for v in keys:
            solver.add_answer_key(v)
    elif form == "list":
        solver.add_answer_key(keys)
    elif form == "star":
        solver.add_answer_key(*keys)
    else:  # nested iterables
        k = len(keys) // 2
        solver.add_answer_key([tuple(keys[:k]), [[v] for v in keys[k:]]])
    backend = case["backend"]
    real_subprocess = case.get("subprocess", False)
    saved_path = cspuz.config.backend_path
    try:
        with warnings.catch_warnings(record=True) as w:
            warnings.simplefilter("always")
            try:
                # termination guard, generous enough for any procedure that spends a bounded number of
                # solver calls per (key, value) pair; cspuz itself needs at most |keys|+2
                budget = 16 + 2 * sum(2 if case["decls"][k][0] == "b" else case["decls"][k][2] - case["decls"][k][1] + 1
                                      for k in case["keys"])
                if backend == "z3":
                    with counted_z3(budget):
                        res = solver.solve(backend="z3")
                elif backend in ("sugar", "sugar_extended"):
                    if real_subprocess:
                        cspuz.config.backend_path = FAKE_SUGAR
                        with patched_subprocess(budget, real=True):
                            res = solver.solve(backend=backend)
                    else:
                        with patched_subprocess(budget):
                            res = solver.solve(backend=backend)
                else:
                    with fakesolver.installed():
                        res = solver.solve(backend=backend)
            except LoopBudget:
                raise Failure("solve-does-not-terminate", observed="more than %d solver calls" % budget,
                              expected="at most a bounded number of solver calls per (key, value) pair")
            except Exception as e:
                raise Failure("exception|" + repo_frame_sig(e),
                              observed="%s: %s" % (type(e).__name__, str(e)[:200]))
    finally:
        cspuz.config.backend_path = saved_path
        del fakesolver.CALLS[:]
    S = all_models(sess)
    route = "native" if backend in NATIVE else "loop"
    if res is not True and res is not False:
        raise Failure("solve-not-bool|" + route, observed=repr(res))
    if res != bool(S):
        raise Failure("solve-return-wrong|" + route, observed=res, expected=bool(S))
    info = dict(n_models=len(S), decided=0, undecided=0, int_keys=0)
    if not S:
        return info
    for k in case["keys"]:
        kind, pos = sess.order[k]
        vals = {(m[0] if kind == "b" else m[1])[pos] for m in S}
        sol = solver.variables[k].sol
        if kind == "i":
            info["int_keys"] += 1
        if len(vals) == 1:
            info["decided"] += 1
            want = next(iter(vals))
            if sol is None:
                raise Failure("determined-key-reported-None|" + route, observed=None, expected=want)
            if sol != want or isinstance(sol, bool) != isinstance(want, bool):
                raise Failure("determined-key-wrong-value|" + route, observed=repr(sol),
                              expected=want)
        else:
            info["undecided"] += 1
            if sol is not None:
                raise Failure("undetermined-key-reported-value|" + route, observed=repr(sol),
                              expected=None)
    return info


def long_refinement_case(case):
    """many answer keys on which the solutions disagree, so that the refute-and-resolve route needs about
    as many satisfiable rounds as there are keys (each model can demote only one or two of them).  The
    solution set is known in closed form: xs with at most / exactly one true, some xs pinned to false."""
    from cspuz import Solver
    from cspuz.constraints import count_true

    n, kind, pinned = case["n"], case["kind"], set(case["pinned"])
    s = Solver()
    xs = s.bool_array(n)
    s.add_answer_key(xs)
    if kind == "at-most-one":
        s.ensure(count_true(xs) <= 1)
    else:
        s.ensure(count_true(xs) == 1)
    for j in sorted(pinned):
        s.ensure(~xs[j])
    free = [i for i in range(n) if i not in pinned]
    try:
        with counted_z3(16 + 2 * n):
            res = s.solve(backend="z3")
    except LoopBudget:
        raise Failure("solve-does-not-terminate", observed="more than %d solver calls" % (16 + 2 * n))
    except Exception as e:
        raise Failure("exception|" + repo_frame_sig(e), observed="%s: %s" % (type(e).__name__, str(e)[:200]))
    want_sat = kind == "at-most-one" or len(free) >= 1
    if res is not want_sat:
        raise Failure("solve-return-wrong|loop", observed=res, expected=want_sat)
    if not want_sat:
        return dict(rounds=0)
    for i in range(n):
        sol = xs[i].sol
        if i in pinned:
            want = False
        elif kind == "exactly-one" and len(free) == 1:
            want = True
        else:
            want = None
        if want is None and sol is not None:
            raise Failure("undetermined-key-reported-value|loop|many-rounds", observed=dict(key=i, sol=sol), expected=None)
        if want is not None and sol is None:
            raise Failure("determined-key-reported-None|loop|many-rounds", observed=dict(key=i), expected=want)
        if want is not None and sol is not want:
            raise Failure("determined-key-wrong-value|loop|many-rounds", observed=dict(key=i, sol=sol), expected=want)
    return dict(rounds=len(free))


def wide_case(case):
    """very many answer keys, nearly all determined (pinned by constraints), a few free ones at chosen
    positions: whatever solve() does per key must not depend on how many keys there are or where a key sits"""
    from cspuz import Solver

    n, free, ints = case["n"], set(case["free"]), case["ints"]
    s = Solver()
    keys = []
    for i in range(n):
        if ints and i % 3 == 0:
            v = s.int_var(0, 3)
            if i not in free:
                s.ensure(v == i % 4)
        else:
            v = s.bool_var()
            if i not in free:
                s.ensure(v if i % 2 else ~v)
        keys.append(v)
        s.add_answer_key(v)
    try:
        with counted_z3(40 + 4 * len(free)):
            res = s.solve(backend="z3")
    except LoopBudget:
        raise Failure("solve-does-not-terminate|wide", observed="more than %d solver calls" % (40 + 4 * len(free)))
    except Exception as e:
        raise Failure("exception|" + repo_frame_sig(e), observed="%s: %s" % (type(e).__name__, str(e)[:200]))
    if res is not True:
        raise Failure("solve-return-wrong|loop|wide", observed=res, expected=True)
    for i, v in enumerate(keys):
        if i in free:
            want = None
        elif ints and i % 3 == 0:
            want = i % 4
        else:
            want = bool(i % 2)
        if v.sol != want or (want is not None and type(v.sol) is not type(want)):
            raise Failure(("undetermined-key-reported-value" if want is None else "determined-key-wrong-value") + "|loop|wide",
                          observed=dict(key=i, sol=v.sol, n=n), expected=want)


def shard_wide(arg):
    from hypothesis import strategies as st

    seed, n_cases = arg
    stats = Stats()
    strat = st.builds(
        lambda n, fr, last, ints: dict(n=n, free=sorted({f % n for f in fr} | ({n - 1} if last else set())), ints=ints),
        st.sampled_from([300, 1030, 1500, 2100, 2600]), st.lists(st.integers(0, 10 ** 6), max_size=3), st.booleans(), st.booleans())

    def b(case):
        stats.case(canon=case, nontrivial=len(case["free"]) >= 1 and case["n"] > 1024, classes=["wide-key-set"] +
                   (["wide:free-key-beyond-1024"] if any(f >= 1024 for f in case["free"]) else []), sample=case)
        wide_case(case)

    fixed = dict(n=1100 + 100 * (seed % 8), free=[1050 + seed % 40], ints=bool(seed % 2))
    try:
        b(fixed)
    except Failure as f:
        stats.fail(f, fixed, "c02.wide")
        return stats
    hyp_search(stats, strat, b, seed=seed, max_examples=n_cases, check="c02.wide", rounds=2, shrink=False, round_floor=2)
    return stats


def shard_long(arg):
    from hypothesis import strategies as st

    seed, n_cases = arg
    stats = Stats()
    strat = st.builds(
        lambda n, kind, pins: dict(n=n, kind=kind, pinned=sorted({p % n for p in pins})),
        st.sampled_from([70, 90, 130, 170]), st.sampled_from(["at-most-one", "exactly-one"]),
        st.lists(st.integers(0, 10 ** 6), max_size=12))

    def b(case):
        out = long_refinement_case(case)
        stats.case(canon=case, nontrivial=out["rounds"] >= 65, classes=["many-refinement-rounds"], sample=case)

    hyp_search(stats, strat, b, seed=seed, max_examples=n_cases, check="c02.many-rounds", rounds=2, shrink=False,
               round_floor=2)
    return stats


def case_strategy(backends):
    from hypothesis import strategies as st

    S = G.strategies()

    @st.composite
    def prog(draw):
        n = draw(st.integers(2, 6))
        decls = []
        prod = 1
        for _ in range(n):
            d = draw(S["decl"]("enum"))
            size = 2 if d[0] == "b" else d[2] - d[1] + 1
            if prod * size > 4000:
                d = ["b"]
                size = 2
                if prod * size > 4000:
                    break
            prod *= size
            decls.append(d)
        nb = sum(1 for d in decls if d[0] == "b")
        ni = len(decls) - nb
        nc = draw(st.integers(0, 4))
        cons = [draw(S["bool_recipe"](nb, ni, 2)) for _ in range(nc)]
        # pin some variables so that decided and undecided keys coexist
        bi = ii = 0
        for d in decls:
            if d[0] == "b":
                if draw(st.integers(0, 3)) == 0:
                    cons.append(["bvar", bi] if draw(st.booleans()) else ["not", ["bvar", bi]])
                bi += 1
            else:
                if draw(st.integers(0, 3)) == 0:
                    cons.append(["eq", ["ivar", ii], ["ilit", draw(st.integers(d[1], d[2]))]])
                ii += 1
        return dict(decls=decls, constraints=cons)

    progs = st.one_of(prog(), prog(), c01.program_strategy()["enum"])

    @st.composite
    def c(draw):
        p = draw(progs)
        n = len(p["decls"])
        mode = draw(st.sampled_from(["some"] * 5 + ["all"] * 4 + ["none"]))
        if mode == "none":
            keys = []
        elif mode == "all":
            keys = list(range(n))
        else:
            keys = sorted(draw(st.sets(st.integers(0, n - 1), min_size=1, max_size=n)))
        keys = draw(st.permutations(keys)) if keys else keys
        return dict(decls=p["decls"], constraints=p["constraints"], keys=list(keys),
                    key_form=draw(st.sampled_from(["scalars", "list", "star", "nested"])),
                    backend=draw(st.sampled_from(backends)))

    return c()


def shard(arg):
    seed, n, backends, n_sub = arg
    st = Stats()

    def body(case):
        try:
            info = run_case(case)
        except Failure:
            st.case(canon=case, nontrivial=True, classes=["failed"])
            raise
        cl = ["backend:" + case["backend"], "route:" + ("native" if case["backend"] in NATIVE else "loop")]
        if not case["keys"]:
            cl.append("no-keys")
        if info["n_models"] == 0:
            cl.append("unsat")
        if info["decided"] and info["undecided"]:
            cl.append("mixed-decided-undecided")
        if any(case["decls"][k][0] == "i" for k in case["keys"]):
            cl.append("int-keys")
        if info["n_models"] >= 2:
            cl.append("multi-model")
        nt = (info["n_models"] >= 2 and info["decided"] and info["undecided"]) or info["n_models"] == 0
        st.case(canon=case, nontrivial=bool(nt), classes=cl, sample=case if nt else None)

    hyp_search(st, case_strategy(backends), body, seed=seed, max_examples=n, check="c02")
    # a few cases through a real subprocess (fakes/fake_sugar) so that _subproc is on the path
    if n_sub:
        def body2(case):
            case = dict(case, subprocess=True)
            info = run_case(case)
            st.case(canon=case, nontrivial=info["n_models"] != 1, classes=["real-subprocess"])

        hyp_search(st, case_strategy(["sugar", "sugar_extended"]), body2, seed=seed + 7,
                   max_examples=n_sub, check="c02.subprocess", shrink=False)
    return st


def run(ctx):
    ctx.rule = (
        "Hypothesis-generated enumerable programs (as C01) x answer-key subset (none/some/all, any "
        "order, registered as scalars / list / *args / nested iterables) x backend in {z3, sugar "
        "(refinement loop); sugar_extended, csugar, enigma_csp, cspuz_core (native deduction)}; oracle = "
        "full solution set by brute force. non-trivial = (>=2 models with a decided and an undecided key) "
        "or no model; distinct by case hash. Plus a family with 70-200 boolean keys (at most / exactly one "
        "true, some pinned false; solution set known in closed form) that needs about as many refinement "
        "rounds as keys, through z3")
    ctx.assumptions = [
        "external solvers are replaced by vlib.fakesolver (a correct solver by construction: brute force "
        "over the parsed text); exactness through the native route is exactness of cspuz' emission+parsing",
        "nothing is asserted about non-key variables or about sol after solve() returned False",
    ]
    be = NATIVE[:2] + LOOP + NATIVE[2:]
    if ctx.quick():
        shards = [(ctx.seed * 1000 + i, 600, be, 3 if i < 4 else 0) for i in range(8)]
    else:
        shards = [(ctx.seed * 1000 + i, 3000, be, 15) for i in range(16)]
    for r in pmap(shard, shards):
        ctx.stats.merge(r)
    for r in pmap(shard_long, [(ctx.seed * 1000 + 300 + i, 2 if ctx.quick() else 12) for i in range(8)]):
        ctx.stats.merge(r)
    for r in pmap(shard_wide, [(ctx.seed * 1000 + 400 + i, 3 if ctx.quick() else 20) for i in range(8)]):
        ctx.stats.merge(r)
    cl = ctx.stats.classes
    tot = max(1, ctx.stats.evaluations)
    ctx.floor("wide key sets with a free key beyond position 1024", cl["wide:free-key-beyond-1024"], 4)
    ctx.floor("programs that need more than 64 refinement rounds", cl["many-refinement-rounds"], 6)
    ctx.floor("mixed decided/undecided share", round(cl["mixed-decided-undecided"] / tot, 3), 0.10)
    ctx.floor("integer keys share", round(cl["int-keys"] / tot, 3), 0.15)
    ctx.floor("no-key share", round(cl["no-keys"] / tot, 3), 0.04)
    ctx.floor("unsat share", round(cl["unsat"] / tot, 3), 0.10)
    ctx.floor("native route share", round(cl["route:native"] / tot, 3), 0.3)
    ctx.floor("loop route share", round(cl["route:loop"] / tot, 3), 0.15)
    ctx.floor("cases through a real subprocess", cl["real-subprocess"], 5)


def replay(ctx, rep):
    if rep.get("check") == "c02.many-rounds":
        long_refinement_case(rep["case"])
        return
    if rep.get("check") == "c02.wide":
        wide_case(rep["case"])
        return
    run_case(rep["case"])
