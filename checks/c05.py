"""C05 - division_connected holds exactly for labelings whose classes are connected.

M1 projection: labels = integer variables with domain 0..k-1; the public function is called
once; ALL k^n labelings are decided on the posted program by the independent RefSolver and
compared with: every label class induces a connected subgraph, every label used unless
allow_empty_group, roots[i] = r => label(r) = i.  Both encodings (the native one through
config.use_graph_primitive, which is the only public switch).  M2: labels supplied as pinned
IntArray1D / IntArray2D, list of IntExpr, list of Python ints through find_answer.
"""

import hashlib
import itertools

from checks import c04
from vlib import encq, fakesolver, graphref, refsem
from vlib.harness import Failure, Stats, hyp_search, pmap, repo_frame_sig

LEVEL = "exploration"


class native_config:
    def __init__(self, on):
        self.on = on

    def __enter__(self):
        import cspuz

        self.cfg = cspuz.config
        self.saved = self.cfg.use_graph_primitive
        self.cfg.use_graph_primitive = self.on

    def __exit__(self, *a):
        self.cfg.use_graph_primitive = self.saved
        return False


def tag(case):
    return "%s|%s|empty=%s|roots=%s" % ("native" if case["native"] else "rank",
                                        "grid" if "grid" in case else "graph",
                                        case["allow_empty"], case["roots"] is not None)


def roots_arg(case):
    if case["roots"] is None:
        return None
    if "grid" in case:
        w = case["grid"][1]
        out = [None if r is None else (r // w, r % w) for r in case["roots"]]
    else:
        out = list(case["roots"])
    form = case.get("roots_form", "list")
    if form == "tuple":
        return tuple(out)
    if form == "iter":
        # a one-shot iterable (cspuz/puzzle/compass.py passes a map object)
        return map(lambda r: r, out)
    return out


def post(case, solver, division):
    from cspuz import graph

    kw = dict(roots=roots_arg(case), allow_empty_group=case["allow_empty"])
    with native_config(case["native"]):
        if "grid" in case:
            graph.division_connected(solver, division, case["k"], **kw)
        else:
            n, edges = c04.spec_of(case)
            graph.division_connected(solver, division, case["k"], c04.make_graph(n, edges), **kw)


def reference(case, labels):
    n, edges = c04.spec_of(case)
    return graphref.division_ok(n, edges, labels, case["k"], case["roots"], case["allow_empty"])


def projection_case(case, st):
    from cspuz import Solver

    n, edges = c04.spec_of(case)
    k = case["k"]
    s = Solver()
    arr = s.int_array(tuple(case["grid"]), 0, k - 1) if "grid" in case else s.int_array(n, 0, k - 1)
    try:
        post(case, s, arr)
    except Exception as e:
        st.fail(Failure("posting-raises|%s|%s" % (tag(case), repo_frame_sig(e)), observed=str(e)[:150]),
                case, "c05.projection")
        return
    q = encq.Query(s)
    ids = [v.id for v in arr]
    for labels in itertools.product(range(k), repeat=n):
        want = reference(case, labels)
        try:
            got = q.admits(ids, labels)
        except refsem.MalformedAtom as e:
            st.fail(Failure("native-atom-malformed|" + tag(case), observed=str(e)), case, "c05.projection")
            return
        sizes = [labels.count(x) for x in range(k)]
        nt = k >= 2 and max(sizes) >= 2
        cl = ["projection", "proj:" + ("native" if case["native"] else "rank")]
        if case["roots"] is not None:
            cl.append("roots-given")
        if case["allow_empty"]:
            cl.append("allow-empty")
        sub = dict(case, labels=list(labels))
        st.case(nontrivial=nt, counted=True, classes=cl, sample=sub if nt else None)
        if got != want:
            st.fail(Failure(("admits-invalid|" if got else "rejects-valid|") + tag(case),
                            observed=got, expected=want), sub, "c05.projection")


def winding_labels(h, w, cells):
    """labels of a partition whose class 0 is the given cell set and whose other classes are the connected
    components of the rest -> (labels row-major, number of classes)"""
    from puzzles.base import components

    lab = {tuple(c): 0 for c in cells}
    rest = {(y, x) for y in range(h) for x in range(w)} - set(lab)
    k = 1
    for comp in sorted(components(rest), key=min):
        for c in comp:
            lab[c] = k
        k += 1
    return [lab[(y, x)] for y in range(h) for x in range(w)], k


def winding_case(case, cache=None):
    """grids beyond the exhaustive scope: one class is a long winding shape; decided on the posted program"""
    from cspuz import Solver

    h, w = case["grid"]
    key = (h, w, case["k"], case["allow_empty"], case["roots"] is not None and tuple(case["roots"]))
    if cache is not None and key in cache:
        q, ids = cache[key]
    else:
        s = Solver()
        arr = s.int_array((h, w), 0, case["k"] - 1)
        post(case, s, arr)
        q = encq.Query(s)
        ids = [v.id for v in arr]
        if cache is not None:
            cache[key] = (q, ids)
    want = reference(case, tuple(case["labels"]))
    got = q.admits(ids, case["labels"])
    if got != want:
        raise Failure(("admits-invalid|" if got else "rejects-valid|") + tag(case) + "|winding",
                      observed=got, expected=want, detail=dict(grid=[h, w], shape=case.get("shape")))
    return want


def shard_winding(arg):
    seed, shape, n = arg
    st = Stats()
    from hypothesis import strategies as hs
    from vlib import winding

    h, w = shape
    cache = {}

    @hs.composite
    def c(draw):
        name, cells = winding.shapes(draw, hs, h, w)
        labels, k = winding_labels(h, w, cells)
        mode = draw(hs.integers(0, 3))
        if mode == 1 and len(cells) >= 3:
            # the middle cell of the shape joins another class (or one of its own): class 0 falls apart
            y, x = cells[draw(hs.integers(1, len(cells) - 2))]
            labels[y * w + x] = k
            k += 1
        k = min(max(k, 1), 6)
        labels = [min(v, k - 1) for v in labels]      # surplus classes are merged into the last one
        roots = None
        if draw(hs.booleans()):
            roots = [None] * k
            y, x = cells[draw(hs.integers(0, len(cells) - 1))]
            roots[0] = y * w + x                        # a root anywhere on the shape, e.g. at its far end
        return dict(grid=[h, w], k=k, allow_empty=draw(hs.booleans()), native=False, roots=roots, roots_form="list",
                    shape=name, labels=labels)

    def body(case):
        want = winding_case(case, cache)
        st.case(canon=case, nontrivial=True,
                classes=["winding", "winding:" + case["shape"], "winding:" + ("valid" if want else "invalid")],
                sample=case)

    hyp_search(st, c(), body, seed=seed, max_examples=n, check="c05.winding", rounds=2)
    return st


FORMS = ["array-pinned", "list-of-exprs", "list-of-ints", "array-of-exprs"]


def e2e_case(case):
    from cspuz import Solver
    from cspuz.array import IntArray1D, IntArray2D

    n, edges = c04.spec_of(case)
    k = case["k"]
    labels = case["labels"]
    form = case["form"]
    s = Solver()
    x = s.int_array(n, 0, k - 1)
    if form == "list-of-ints":
        data = list(labels)
    else:
        for v, lab in zip(x, labels):
            s.ensure(v == lab)
        if form == "array-of-exprs":
            data = [v + 0 for v in x]
        else:
            data = list(x)
    if "grid" in case:
        if form == "list-of-ints":
            # the array form needs expressions: pinned variables instead
            for v, lab in zip(x, labels):
                s.ensure(v == lab)
            data = list(x)
        division = IntArray2D(data, tuple(case["grid"]))
    elif form in ("array-pinned", "array-of-exprs"):
        division = IntArray1D(data)
    else:
        division = data
    try:
        post(case, s, division)
        if case["native"]:
            with fakesolver.installed():
                res = s.find_answer(backend="cspuz_core")
            del fakesolver.CALLS[:]
        else:
            res = s.find_answer()
    except Exception as e:
        raise Failure("e2e-raises|%s|%s|%s" % (tag(case), form, repo_frame_sig(e)), observed=str(e)[:150])
    want = reference(case, labels)
    if res != want:
        raise Failure(("e2e-admits-invalid|" if res else "e2e-rejects-valid|") +
                      ("native" if case["native"] else "rank") + "|" + form, observed=res, expected=want)


def derive(seed, *key):
    h = hashlib.blake2b(repr((seed,) + key).encode(), digest_size=8).digest()
    return int.from_bytes(h, "big")


def make_roots(seed, idx, n, k):
    """a roots list with None holes, derived deterministically"""
    r = derive(seed, "roots", idx)
    length = k if r % 4 else max(1, k - 1)
    out = []
    for i in range(length):
        r, m = divmod(r, 7)
        out.append(None if m < 2 else (r % n))
        r //= n
    return out


def shard_enum(cases):
    st = Stats()
    for c in cases:
        projection_case(c, st)
    return st


def shard_e2e(arg):
    seed, n_cases = arg
    st = Stats()
    from hypothesis import strategies as hs

    @hs.composite
    def c(draw):
        if draw(hs.integers(0, 2)) == 0:
            h = draw(hs.integers(1, 3))
            w = draw(hs.integers(1, max(1, 6 // h)))
            base = dict(grid=[h, w])
            n = h * w
        else:
            base = draw(c04.graph_strategy(6, False))
            n = base["n"]
        k = draw(hs.integers(1, 3))
        labels = draw(hs.lists(hs.integers(0, k - 1), min_size=n, max_size=n))
        roots = None
        if draw(hs.booleans()):
            roots = [None if draw(hs.integers(0, 2)) == 0 else draw(hs.integers(0, n - 1)) for _ in range(k)]
            if draw(hs.booleans()):
                # make them agree with the labeling where possible
                for i in range(k):
                    if roots[i] is not None and i in labels:
                        roots[i] = labels.index(i)
        return dict(base, k=k, labels=labels, roots=roots, roots_form=draw(hs.sampled_from(["list", "tuple", "iter"])),
                    allow_empty=draw(hs.booleans()),
                    native=draw(hs.booleans()), form=draw(hs.sampled_from(FORMS)))

    def body(case):
        nt = case["k"] >= 2
        st.case(canon=case, nontrivial=nt, classes=["e2e", "e2e-form:" + case["form"],
                                                    "e2e:" + ("native" if case["native"] else "rank")],
                sample=case if nt else None)
        e2e_case(case)

    hyp_search(st, c(), body, seed=seed, max_examples=n_cases, check="c05.e2e")
    return st


def run(ctx):
    ctx.rule = (
        "every labelled simple graph on 1..4 vertices (thorough: 5) and grid shapes with h*w <= 6 (8), "
        "num_regions 1..3, allow_empty_group on/off, roots absent / a derived list with None holes (passed as list, tuple or one-shot iterator), both "
        "encodings: ALL k^n labelings decided on the posted program by an independent solver vs the "
        "definition; plus Hypothesis-generated find_answer cases with the labels as pinned IntArray1D/2D, "
        "arrays of expressions, lists of IntExpr and lists of Python ints. non-trivial = k >= 2 and a "
        "class with >= 2 vertices; distinct by construction / case hash")
    ctx.assumptions = ["label domains are exactly 0..k-1 (the property's precondition)",
                       "the native encoding is selected through config.use_graph_primitive (division_connected "
                       "has no per-call switch)"]
    quick = ctx.quick()
    cases = []
    idx = 0
    graphs = []
    for n in range(1, (4 if quick else 5) + 1):
        for edges in graphref.all_simple_graphs(n):
            if n == 5 and derive(ctx.seed, "g5", idx) % 4:
                idx += 1
                continue
            vs = c04.orientation_variants(edges)
            graphs.append(dict(n=n, edges=vs[derive(ctx.seed, "orient", idx) % len(vs)]))
            idx += 1
    cells = 6 if quick else 8
    for h in range(1, cells + 1):
        for w in range(1, cells // h + 1):
            graphs.append(dict(grid=[h, w]))
    for gi, g in enumerate(graphs):
        n = c04.spec_of(g)[0]
        for k in (1, 2, 3):
            if k ** n > 6600:
                continue
            for ae in (False, True):
                for nat in (False, True):
                    for with_roots in (False, True):
                        if with_roots and derive(ctx.seed, "wr", gi, k, ae, nat) % 2 and n > 2:
                            continue
                        roots = make_roots(ctx.seed, (gi, k, ae, nat), n, k) if with_roots else None
                        form = ["list", "tuple", "iter"][derive(ctx.seed, "rf", gi, k, ae, nat) % 3]
                        cases.append(dict(g, k=k, allow_empty=ae, native=nat, roots=roots, roots_form=form))
    cases.sort(key=lambda c: -(c["k"] ** c04.spec_of(c)[0]))
    nshard = 16 if quick else 64
    for r in pmap(shard_enum, [cases[i::nshard] for i in range(nshard)]):
        ctx.stats.merge(r)
    for r in pmap(shard_e2e, [(ctx.seed * 1000 + 60 + i, 120 if quick else 2500) for i in range(8 if quick else 16)]):
        ctx.stats.merge(r)
    wshapes = [(3, 4), (4, 4), (5, 5), (4, 6), (5, 6), (2, 9)]
    for r in pmap(shard_winding, [(ctx.seed * 1000 + 90 + i, sh, 24 if quick else 300) for i, sh in enumerate(wshapes)]):
        ctx.stats.merge(r)
    cl = ctx.stats.classes
    ctx.floor("winding partitions that are valid", cl["winding:valid"], 30)
    ctx.floor("winding partitions that are invalid", cl["winding:invalid"], 10)
    tot = max(1, cl["projection"])
    ctx.floor("roots given (share)", round(cl["roots-given"] / tot, 3), 0.15)
    ctx.floor("allow_empty_group (share)", round(cl["allow-empty"] / tot, 3), 0.3)
    ctx.floor("native encoding (share)", round(cl["proj:native"] / tot, 3), 0.3)
    for f in FORMS:
        ctx.floor("e2e form " + f, cl["e2e-form:" + f], 50)


def replay(ctx, rep):
    case = rep["case"]
    if rep.get("check") == "c05.e2e":
        e2e_case(case)
        return
    if rep.get("check") == "c05.winding":
        winding_case(case)
        return
    st = Stats()
    c = dict(case)
    c.pop("labels", None)
    projection_case(c, st)
    if st.failures:
        sig, d = sorted(st.failures.items())[0]
        raise Failure(sig, observed=d["observed"], expected=d["expected"])
