"""C10 - crossable loop/path constraint admits exactly single self-crossing trails.

Every segment subset of small BoolGridFrames is decided on the posted program by the
independent RefSolver (fixed-pattern probing for m <= 12 segments, AllSAT projection compared
with a brute-force evaluation of the reference predicate over all 2^m subsets otherwise) and
compared with: degree in {0,1,2,4} ({0,2,4} for cycles), 4 only at interior points, one strand
when straight pairs pass through each other at 4-way points.  For every admitted pattern the
two returned arrays must be forced to 'visited' and '4-way'.
"""

import itertools

from vlib import encq, fakesolver, graphref, lattice, refsem
from vlib.harness import Failure, Stats, hyp_search, pmap, repo_frame_sig

LEVEL = "exploration"
PROBE_LIMIT = 12


def analyse(L, pat):
    """-> (valid_path, valid_cycle, visited list, cross list, n_fourway, n_strands)"""
    active = [s for s, a in zip(L.segments, pat) if a]
    pts = L.points()
    at = {p: [] for p in pts}
    for s in active:
        a, b = L.endpoints(s)
        at[a].append(s)
        at[b].append(s)
    deg = {p: len(v) for p, v in at.items()}
    visited = [deg[p] > 0 for p in pts]
    cross = [deg[p] == 4 for p in pts]
    ok_deg_path = all(d in (0, 1, 2, 4) for d in deg.values())
    ok_deg_cycle = all(d in (0, 2, 4) for d in deg.values())
    interior_ok = all((deg[p] != 4) or L.is_interior_point(p) for p in pts)
    idx = {s: i for i, s in enumerate(active)}
    uf = graphref.UF(len(active))
    for p in pts:
        segs = at[p]
        if deg[p] == 4:
            hs = [s for s in segs if s[0] == "H"]
            vs = [s for s in segs if s[0] == "V"]
            uf.union(idx[hs[0]], idx[hs[1]])
            uf.union(idx[vs[0]], idx[vs[1]])
        else:
            for s in segs[1:]:
                uf.union(idx[segs[0]], idx[s])
    strands = len({uf.find(i) for i in range(len(active))})
    one = strands <= 1
    return (ok_deg_path and interior_ok and one, ok_deg_cycle and interior_ok and one, visited, cross,
            sum(cross), strands)


def tag(case):
    return "%s|%s" % ("cycle" if case["single_cycle"] else "path", "native" if case["native"] else "rank")


def post(case, s):
    from cspuz import BoolGridFrame, graph
    from cspuz.array import BoolArray2D

    h, w = case["frame"]
    frame = BoolGridFrame(s, h, w)
    evars = list(frame.horizontal.data) + list(frame.vertical.data)
    if case["single_cycle"] and case.get("alias"):
        res = graph.active_edges_single_cycle_crossable(s, frame, use_graph_primitive=case["native"])
    else:
        res = graph.active_edges_connected_crossable(s, frame, single_cycle=case["single_cycle"],
                                                     use_graph_primitive=case["native"])
    if not (isinstance(res, tuple) and len(res) == 2):
        raise Failure("returned-value-shape|" + tag(case), observed=type(res).__name__)
    passed, cross = res
    for arr in (passed, cross):
        if not isinstance(arr, BoolArray2D) or tuple(arr.shape) != (h + 1, w + 1):
            raise Failure("returned-array-shape|" + tag(case), observed=list(getattr(arr, "shape", [])),
                          expected=[h + 1, w + 1])
    pids = [passed[y, x].id for y in range(h + 1) for x in range(w + 1)]
    cids = [cross[y, x].id for y in range(h + 1) for x in range(w + 1)]
    return [v.id for v in evars], pids, cids


def check_pattern(case, q, L, eids, pids, cids, pat, st, known_admitted=None):
    vp, vc, visited, cross, nfour, strands = analyse(L, pat)
    want = vc if case["single_cycle"] else vp
    got = q.admits(eids, pat) if known_admitted is None else known_admitted
    nt = nfour >= 1 or strands >= 2
    cl = ["pattern", "pat:" + tag(case)]
    if nfour:
        cl.append("has-4-way-point")
    if strands >= 2:
        cl.append("two-or-more-strands")
    sub = dict(case, pattern=[int(x) for x in pat])
    st.case(nontrivial=nt, counted=True, classes=cl, sample=sub if nt else None)
    if got != want:
        st.fail(Failure(("admits-invalid|" if got else "rejects-valid|") + tag(case) +
                        ("|4way" if nfour else ""), observed=got, expected=want), sub, "c10.pattern")
        return
    if got:
        if not q.forced(eids, pat, pids, visited):
            st.fail(Failure("visited-array-not-exact|" + tag(case), observed="another value possible",
                            expected=[int(x) for x in visited]), sub, "c10.pattern")
        if not q.forced(eids, pat, cids, cross):
            st.fail(Failure("crossing-array-not-exact|" + tag(case), observed="another value possible",
                            expected=[int(x) for x in cross]), sub, "c10.pattern")


def run_case(case, st):
    from cspuz import Solver

    h, w = case["frame"]
    L = lattice.Lattice(h, w)
    s = Solver()
    try:
        eids, pids, cids = post(case, s)
    except Failure as f:
        st.fail(f, case, "c10.post")
        return
    except Exception as e:
        st.fail(Failure("posting-raises|%s|%s" % (tag(case), repo_frame_sig(e)), observed=str(e)[:150]),
                case, "c10.post")
        return
    q = encq.Query(s)
    m = len(L.segments)
    try:
        if m <= PROBE_LIMIT or case.get("probe"):
            pats = case.get("patterns")
            if pats is None:
                pats = graphref.patterns(m)
            for pat in pats:
                check_pattern(case, q, L, eids, pids, cids, pat, st)
        else:
            ref = set()
            for pat in graphref.patterns(m):
                vp, vc = analyse(L, pat)[:2]
                if (vc if case["single_cycle"] else vp):
                    ref.add(frozenset(i for i, a in enumerate(pat) if a))
            got = set()
            for vals in q.rs.allsat(eids, limit=len(ref) + 50):
                got.add(frozenset(i for i, v in enumerate(vals) if v))
            st.extra["projection_models"] = st.extra.get("projection_models", 0) + len(got)
            st.extra["patterns_covered_by_projection"] = st.extra.get("patterns_covered_by_projection", 0) + 2 ** m
            for fs in sorted(got - ref, key=sorted)[:3]:
                pat = [i in fs for i in range(m)]
                check_pattern(case, q, L, eids, pids, cids, pat, st, known_admitted=True)
            for fs in sorted(ref - got, key=sorted)[:3]:
                pat = [i in fs for i in range(m)]
                check_pattern(case, q, L, eids, pids, cids, pat, st, known_admitted=False)
            for fs in sorted(got & ref, key=sorted):
                pat = [i in fs for i in range(m)]
                check_pattern(case, q, L, eids, pids, cids, pat, st, known_admitted=True)
    except refsem.MalformedAtom as e:
        st.fail(Failure("native-atom-malformed|" + tag(case), observed=str(e)), case, "c10")
    st.extra["cegar_iterations"] = st.extra.get("cegar_iterations", 0) + q.rs.cegar_iterations


def e2e_case(case):
    from cspuz import Solver

    h, w = case["frame"]
    L = lattice.Lattice(h, w)
    s = Solver()
    try:
        eids, pids, cids = post(case, s)
    except Failure:
        raise
    except Exception as e:
        raise Failure("e2e-raises|%s|%s" % (tag(case), repo_frame_sig(e)), observed=str(e)[:150])
    pat = [bool(x) for x in case["pattern"]]
    byid = {v.id: v for v in s.variables}
    for i, p in zip(eids, pat):
        s.ensure(byid[i] if p else ~byid[i])
    try:
        if case["native"]:
            with fakesolver.installed():
                res = s.find_answer(backend="cspuz_core")
            del fakesolver.CALLS[:]
        else:
            res = s.find_answer()
    except Exception as e:
        raise Failure("e2e-raises|%s|%s" % (tag(case), repo_frame_sig(e)), observed=str(e)[:150])
    vp, vc, visited, cross, nfour, strands = analyse(L, pat)
    want = vc if case["single_cycle"] else vp
    if res != want:
        raise Failure(("e2e-admits-invalid|" if res else "e2e-rejects-valid|") + tag(case),
                      observed=res, expected=want)
    if res:
        if [byid[i].sol for i in pids] != visited:
            raise Failure("e2e-visited-sol-wrong|" + tag(case), observed=[byid[i].sol for i in pids],
                          expected=visited)
        if [byid[i].sol for i in cids] != cross:
            raise Failure("e2e-crossing-sol-wrong|" + tag(case), observed=[byid[i].sol for i in cids],
                          expected=cross)


def shard_enum(cases):
    st = Stats()
    for c in cases:
        run_case(c, st)
    return st


def shard_e2e(arg):
    seed, n_cases, max_side = arg
    st = Stats()
    from hypothesis import strategies as hs

    @hs.composite
    def c(draw):
        h = draw(hs.integers(1, max_side))
        w = draw(hs.integers(1, max_side))
        L = lattice.Lattice(h, w)
        m = len(L.segments)
        mode = draw(hs.integers(0, 3))
        pat = [0] * m
        if mode == 0:
            pat = draw(hs.lists(hs.integers(0, 1), min_size=m, max_size=m))
        else:
            # constructed: lay full straight lines through an interior point, add a rectangle, perturb
            if h >= 2 and w >= 2:
                py = draw(hs.integers(1, h - 1))
                px = draw(hs.integers(1, w - 1))
                for x in range(w):
                    pat[L.index[("H", py, x)]] = 1
                for y in range(h):
                    pat[L.index[("V", y, px)]] = 1
            if mode >= 2:
                y0 = draw(hs.integers(0, h - 1))
                y1 = draw(hs.integers(y0 + 1, h))
                x0 = draw(hs.integers(0, w - 1))
                x1 = draw(hs.integers(x0 + 1, w))
                for x in range(x0, x1):
                    pat[L.index[("H", y0, x)]] ^= 1
                    pat[L.index[("H", y1, x)]] ^= 1
                for y in range(y0, y1):
                    pat[L.index[("V", y, x0)]] ^= 1
                    pat[L.index[("V", y, x1)]] ^= 1
            if mode == 3:
                pat[draw(hs.integers(0, m - 1))] ^= 1
        return dict(frame=[h, w], single_cycle=draw(hs.booleans()), native=draw(hs.booleans()),
                    alias=draw(hs.booleans()), pattern=pat)

    def body(case):
        L = lattice.Lattice(*case["frame"])
        _, _, _, _, nfour, strands = analyse(L, case["pattern"])
        nt = nfour >= 1 or strands >= 2
        cl = ["e2e", "e2e:" + tag(case)]
        if nfour:
            cl.append("e2e-4-way")
        if strands >= 2:
            cl.append("e2e-multi-strand")
        st.case(canon=case, nontrivial=nt, classes=cl, sample=case if nt else None)
        e2e_case(case)

    hyp_search(st, c(), body, seed=seed, max_examples=n_cases, check="c10.e2e")
    return st


def weave(L, h, w, rows, cols, offset):
    """a dense family of trails on the (h+1) x (w+1) point lattice: the chosen interior rows and columns as
    full straight lines (they cross at interior points), their 2k ends paired up in clockwise order along
    the outer boundary and joined by the boundary path between them.  Every point has degree 0, 2 or 4;
    whether it is ONE strand depends on the choice (decided by `analyse`) -> pattern"""
    act = set()
    for y in rows:
        for x in range(w):
            act.add(("H", y, x))
    for x in cols:
        for y in range(h):
            act.add(("V", y, x))
    ring = [(0, x) for x in range(w + 1)] + [(y, w) for y in range(1, h + 1)] + \
           [(h, x) for x in range(w - 1, -1, -1)] + [(y, 0) for y in range(h - 1, 0, -1)]
    pos = {p: i for i, p in enumerate(ring)}
    ends = sorted(pos[p] for p in ([(y, 0) for y in rows] + [(y, w) for y in rows] +
                                   [(0, x) for x in cols] + [(h, x) for x in cols]))
    if ends:
        ends = ends[offset % 2:] + ends[:offset % 2]
        for a, b in zip(ends[0::2], ends[1::2]):
            i = a
            while i != b:
                j = (i + 1) % len(ring)
                p, q = ring[i], ring[j]
                if p[0] == q[0]:
                    act.add(("H", p[0], min(p[1], q[1])))
                else:
                    act.add(("V", min(p[0], q[0]), p[1]))
                i = j
    return [s_ in act for s_ in L.segments]


def shard_dense(arg):
    """frames of 4x4 .. 6x6 cells (beyond the exhaustive scope): dense self-crossing trails with more active
    segments than the lattice has points, and their neighbours with one segment flipped"""
    from hypothesis import strategies as hs

    seed, frame, n = arg
    h, w = frame
    L = lattice.Lattice(h, w)
    st = Stats()
    for sc in (True, False):
        case0 = dict(frame=[h, w], single_cycle=sc, native=False)
        pats = []

        @hs.composite
        def c(draw):
            full = draw(hs.integers(0, 2)) == 0      # the extremal member: every interior line present
            rows = [y for y in range(1, h) if full or draw(hs.integers(0, 3)) > 0]
            cols = [x for x in range(1, w) if full or draw(hs.integers(0, 3)) > 0]
            pat = weave(L, h, w, rows, cols, draw(hs.integers(0, 1)))
            k = draw(hs.integers(0, 3))
            if k == 1 or (k == 2 and not sc):
                on = [i for i, a in enumerate(pat) if a]
                if on:
                    pat[on[draw(hs.integers(0, len(on) - 1))]] = False     # open the trail somewhere
            elif k == 2:
                i = draw(hs.integers(0, len(pat) - 1))
                pat[i] = not pat[i]
            return dict(case0, pattern=[int(x) for x in pat])

        def body(case):
            pat = case["pattern"]
            vp0, vc0, _, _, _, strands0 = analyse(L, [bool(x) for x in pat])
            if len(pat) > 60 and not (vc0 if sc else vp0) and strands0 >= 2:
                # refuting "several strands" on a large lattice takes the reference solver minutes; the large
                # frames are there for the valid dense trails (small frames cover the rejections)
                st.case(canon=case, nontrivial=False, classes=["dense:skipped-multi-strand-on-large-frame"])
                return
            st2 = Stats()
            run_case(dict(case0, patterns=[[bool(x) for x in pat]], probe=True), st2)
            vp, vc, _, _, nfour, strands = analyse(L, [bool(x) for x in pat])
            valid = vc if sc else vp
            st.case(canon=case, nontrivial=nfour >= 2,
                    classes=["dense", "dense:" + ("valid" if valid else "invalid")] +
                            (["dense:more-segments-than-points"] if valid and sum(pat) > (h + 1) * (w + 1) else []) +
                            (["dense:segments>(h+2)(w+2)"] if valid and sum(pat) > (h + 2) * (w + 2) else []))
            if st2.failures:
                sig, d = sorted(st2.failures.items())[0]
                raise Failure(sig + "|dense", observed=d["observed"], expected=d["expected"], detail=d["case"])

        hyp_search(st, c(), body, seed=seed + (1 if sc else 0), max_examples=n, check="c10.dense", rounds=2,
                   shrink=False, round_floor=4)
    return st


def run(ctx):
    ctx.rule = (
        "frames 0x2, 0x3, 1x1 .. 2x2, 1x3, 3x1 (m <= 12 segments): ALL 2^m subsets by fixed-pattern probing; "
        "2x3 / 3x2 (17 segments; thorough also 3x3 cycle form, 24 segments): AllSAT projection of the "
        "posted program on the segment variables compared with the reference predicate evaluated on all "
        "2^m subsets; x single_cycle on/off x {rank, native (CEGAR on the split graph's atom)}; returned "
        "arrays forced to visited / 4-way on every admitted pattern; plus constructed end-to-end cases "
        "(two straight lines through an interior point, a rectangle, one flipped segment) up to 3x3 (4x4). "
        "non-trivial = pattern with a 4-way point or >= 2 strands; distinct by construction / case hash")
    quick = ctx.quick()
    frames = [(0, 2), (0, 3), (1, 1), (1, 2), (2, 1), (2, 2), (1, 3), (3, 1)]
    cases = []
    for fr in frames:
        for sc in (False, True):
            for nat in (False, True):
                cases.append(dict(frame=list(fr), single_cycle=sc, native=nat, alias=bool(sc and nat)))
    big = [(2, 3), (3, 2)]
    for fr in big:
        for sc in (False, True):
            for nat in (False, True):
                if not sc and quick:
                    continue  # path form on 17 segments (2057 admitted subsets, ~90 s): thorough tier
                cases.append(dict(frame=list(fr), single_cycle=sc, native=nat))
    if not quick:
        cases.append(dict(frame=[3, 3], single_cycle=True, native=False))
        cases.append(dict(frame=[3, 3], single_cycle=True, native=True))

    def cost(c):
        m = len(lattice.Lattice(*c["frame"]).segments)
        return 2 ** m * (4 if c["native"] else 1)

    cases.sort(key=lambda c: -cost(c))
    # split the 2x2 probing cases into pattern slices to balance the load
    jobs = []
    for c in cases:
        m = len(lattice.Lattice(*c["frame"]).segments)
        if m == 12:
            allp = list(graphref.patterns(m))
            for i in range(4):
                jobs.append([dict(c, patterns=allp[i::4], probe=True)])
        else:
            jobs.append([c])
    for r in pmap(shard_enum, jobs):
        ctx.stats.merge(r)
    for r in pmap(shard_e2e, [(ctx.seed * 1000 + 90 + i, 70 if quick else 1500, 3 if quick else 4)
                              for i in range(8 if quick else 16)]):
        ctx.stats.merge(r)
    dframes = [(4, 4), (5, 5), (5, 6), (6, 6), (6, 6), (6, 7), (7, 6), (4, 7)]
    for r in pmap(shard_dense, [(ctx.seed * 1000 + 120 + i, fr, 10 if quick else 120) for i, fr in enumerate(dframes)]):
        ctx.stats.merge(r)
    cl = ctx.stats.classes
    ctx.floor("dense trails that are valid", cl["dense:valid"], 10)
    ctx.floor("valid dense trails with more segments than points", cl["dense:more-segments-than-points"], 3)
    ctx.floor("valid dense trails with more segments than (h+2)(w+2)", cl["dense:segments>(h+2)(w+2)"], 1)
    ctx.floor("probed patterns with a 4-way point", cl["has-4-way-point"], 200)
    ctx.floor("probed patterns with >= 2 strands", cl["two-or-more-strands"], 1000)
    ctx.floor("e2e cases with a 4-way point", cl["e2e-4-way"], 50)


def replay(ctx, rep):
    case = rep["case"]
    if rep.get("check") == "c10.e2e":
        e2e_case(case)
        return
    st = Stats()
    c = dict(case)
    pat = c.pop("pattern", None)
    c.pop("patterns", None)
    if pat is not None:
        c["patterns"] = [pat]
        c["probe"] = True
    run_case(c, st)
    if st.failures:
        sig, d = sorted(st.failures.items())[0]
        raise Failure(sig, observed=d["observed"], expected=d["expected"])
