"""C14 - BoolGridFrame accessors are consistent with the lattice geometry.

Exhaustive over all frames with 0 <= h, w <= 5 (thorough 8) and all coordinates inside and
around them.  Oracle: vlib.lattice (an explicit geometric model); each variable id is mapped to
its segment by construction order (horizontal (h+1) x w row-major, then vertical h x (w+1)).
"""

from vlib import lattice
from vlib.harness import Failure, Stats, pmap

LEVEL = "exploration"


def outcome(f):
    try:
        return ("ok", f())
    except IndexError:
        return ("IndexError", None)
    except Exception as e:
        return ("other:" + type(e).__name__, None)


def check_frame(arg):
    h, w, base = arg
    from cspuz import BoolGridFrame, Solver, graph
    from cspuz.array import BoolArray1D, BoolArray2D
    from cspuz.grid_frame import BoolInnerGridFrame

    st = Stats()
    L = lattice.Lattice(h, w)
    s = Solver()
    for _ in range(base):  # ids need not start at 0
        s.bool_var()
    fr = BoolGridFrame(s, h, w)
    case0 = dict(h=h, w=w, base=base)
    seg_id = None

    def fail(sig, case, observed=None, expected=None):
        st.fail(Failure(sig, observed=observed, expected=expected), dict(case0, **case), "c14")

    def note(nt, cls, sample=None):
        st.case(nontrivial=nt, counted=True, classes=[cls], sample=dict(case0, **sample) if sample else None)

    # arrays
    ok = (isinstance(fr.horizontal, BoolArray2D) and tuple(fr.horizontal.shape) == (h + 1, w)
          and isinstance(fr.vertical, BoolArray2D) and tuple(fr.vertical.shape) == (h, w + 1)
          and fr.height == h and fr.width == w)
    note(False, "arrays")
    if not ok:
        fail("array-shapes", {}, observed=[list(fr.horizontal.shape), list(fr.vertical.shape)])
        return st
    # the documented horizontal / vertical arrays define which variable sits on which segment (the order
    # in which the implementation allocates the variables is not part of the property); every other
    # accessor is compared with them
    seg_id = {}
    for seg in L.segments:
        k, y, x = seg
        v = fr.horizontal[y, x] if k == "H" else fr.vertical[y, x]
        seg_id[seg] = v.id
    if len(set(seg_id.values())) != len(seg_id):
        fail("two-segments-share-a-variable", {}, observed=sorted(seg_id.values())[:10])
        return st
    # doubled coordinates
    for Y in range(-2, 2 * h + 3):
        for X in range(-2, 2 * w + 3):
            seg = L.by_doubled(Y, X)
            want = ("ok", seg_id[seg]) if seg is not None else ("IndexError", None)
            got = outcome(lambda: fr[Y, X].id)
            boundary = Y in (0, 2 * h) or X in (0, 2 * w) or seg is None
            note(h >= 1 and w >= 1 and boundary, "doubled", dict(acc="getitem", Y=Y, X=X))
            if got != want:
                fail("getitem-" + ("accepts-invalid" if got[0] == "ok" else "wrong" if want[0] == "ok" and got[0] == "ok" else "mismatch"),
                     dict(Y=Y, X=X), observed=list(got), expected=list(want))
    # cells
    for cy in range(-1, h + 2):
        for cx in range(-1, w + 2):
            inside = 0 <= cy < h and 0 <= cx < w
            want = ("ok", sorted(seg_id[sg] for sg in L.cell_segments(cy, cx))) if inside else ("IndexError", None)
            for style in ("two", "tuple"):
                if style == "two":
                    got = outcome(lambda: sorted(v.id for v in fr.cell_neighbors(cy, cx)))
                else:
                    got = outcome(lambda: sorted(v.id for v in fr.cell_neighbors((cy, cx))))
                note(h >= 1 and w >= 1 and (not inside or cy in (0, h - 1) or cx in (0, w - 1)), "cell",
                     dict(acc="cell_neighbors", cy=cy, cx=cx, style=style))
                if got != want:
                    fail("cell_neighbors-mismatch|" + ("inside" if inside else "outside"),
                         dict(cy=cy, cx=cx, style=style), observed=list(got), expected=list(want))
            if inside:
                # every returned segment separates this cell from a neighbour / the outside
                for sg in L.cell_segments(cy, cx):
                    if (cy, cx) not in L.cells_of(sg):
                        raise RuntimeError("lattice model inconsistent")
    # points
    for py in range(-1, h + 3):
        for px in range(-1, w + 3):
            inside = 0 <= py <= h and 0 <= px <= w
            want = ("ok", sorted(seg_id[sg] for sg in L.point_segments(py, px))) if inside else ("IndexError", None)
            for style in ("two", "tuple"):
                if style == "two":
                    got = outcome(lambda: sorted(v.id for v in fr.vertex_neighbors(py, px)))
                else:
                    got = outcome(lambda: sorted(v.id for v in fr.vertex_neighbors((py, px))))
                note(h >= 1 and w >= 1 and (not inside or py in (0, h) or px in (0, w)), "point",
                     dict(acc="vertex_neighbors", py=py, px=px, style=style))
                if got != want:
                    fail("vertex_neighbors-mismatch|" + ("inside" if inside else "outside"),
                         dict(py=py, px=px, style=style), observed=list(got), expected=list(want))
    # all_edges / iteration
    ae = fr.all_edges()
    it = [v.id for v in fr]
    note(h + w >= 1, "iteration", dict(acc="all_edges"))
    if not isinstance(ae, BoolArray1D) or [v.id for v in ae] != it:
        fail("all_edges-differs-from-iteration", {}, observed=it[:10])
    if sorted(it) != sorted(seg_id.values()) or len(set(it)) != len(it):
        fail("iteration-not-every-segment-once", {}, observed=it[:20], expected=len(seg_id))
    # dual
    d = fr.dual()
    note(h + w >= 1, "dual", dict(acc="dual"))
    if not isinstance(d, BoolInnerGridFrame) or d.height != h + 1 or d.width != w + 1:
        fail("dual-dimensions", {}, observed=[getattr(d, "height", None), getattr(d, "width", None)])
    else:
        # in the dual the points become cells: the inner border between cells (y,x),(y,x+1) is the
        # segment joining points (y,x)-(y,x+1), i.e. H(y,x); between (y,x),(y+1,x) it is V(y,x)
        if tuple(d.vertical.shape) != (h + 1, w) or tuple(d.horizontal.shape) != (h, w + 1):
            fail("dual-array-shapes", {}, observed=[list(d.horizontal.shape), list(d.vertical.shape)])
        else:
            for seg in L.segments:
                k, y, x = seg
                v = d.vertical[y, x] if k == "H" else d.horizontal[y, x]
                if v.id != seg_id[seg]:
                    fail("dual-moves-variable-to-another-segment", dict(seg=list(seg)), observed=v.id,
                         expected=seg_id[seg])
        dd = d.dual()
        if not (isinstance(dd, BoolGridFrame) and dd.height == h and dd.width == w
                and [v.id for v in dd.horizontal] == [v.id for v in fr.horizontal]
                and [v.id for v in dd.vertical] == [v.id for v in fr.vertical]
                and tuple(dd.horizontal.shape) == (h + 1, w) and tuple(dd.vertical.shape) == (h, w + 1)):
            fail("dual-of-dual-differs", {})
        else:
            for Y in range(0, 2 * h + 1):
                for X in range(0, 2 * w + 1):
                    if outcome(lambda: dd[Y, X].id) != outcome(lambda: fr[Y, X].id):
                        fail("dual-of-dual-getitem-differs", dict(Y=Y, X=X))
        if [v.id for v in d] != [v.id for v in d.dual()]:
            fail("inner-iteration-differs-from-dual", {})
    # graph inferred by the loop constraints
    note(h + w >= 1, "inferred-graph", dict(acc="_from_grid_frame"))
    try:
        edges, g = graph._from_grid_frame(fr)
    except Exception as e:
        fail("inferred-graph-raises|" + type(e).__name__, {}, observed=str(e)[:100])
        return st
    if g.num_vertices != (h + 1) * (w + 1) or len(g) != len(L.segments) or len(edges) != len(L.segments):
        fail("inferred-graph-size", {}, observed=[g.num_vertices, len(g), len(edges)])
    else:
        id_seg = {v: k for k, v in seg_id.items()}
        seen = set()
        for var, (u, v) in zip(edges, g.edges):
            sg = id_seg.get(var.id)
            if sg is None:
                fail("inferred-graph-unknown-variable", {}, observed=var.id)
                continue
            a, b = L.endpoints(sg)
            if {u, v} != {L.point_id(a), L.point_id(b)}:
                fail("inferred-graph-edge-joins-wrong-points", dict(seg=list(sg)), observed=[u, v],
                     expected=[L.point_id(a), L.point_id(b)])
            seen.add(var.id)
        if len(seen) != len(L.segments):
            fail("inferred-graph-misses-segments", {}, observed=len(seen))
    return st


def run_history(case):
    """several frames built and interrogated one after the other in ONE process: whatever the library
    remembers between calls (a cache keyed by the frame size, say) must not leak from one frame into the
    next.  Sides of 10 and more are included (two-digit sizes)."""
    for (h, w) in case["history"]:
        st = check_frame((h, w, 0))
        if st.failures:
            sig, d = sorted(st.failures.items())[0]
            raise Failure(sig + "|after-other-frames", observed=d["observed"], expected=d["expected"],
                          detail=dict(frame=[h, w]))


def shard_history(arg):
    from hypothesis import strategies as hs
    from vlib.harness import hyp_search

    seed, n = arg
    st = Stats()
    side = hs.sampled_from([0, 1, 1, 2, 3, 10, 11, 12, 13, 21, 23])
    frame = hs.tuples(side, side).filter(lambda t: t[0] * t[1] <= 40).map(list)
    # a frame and its transpose, or frames whose decimal sizes concatenate alike, in one history
    hist = hs.lists(frame, min_size=2, max_size=5).map(lambda fs: fs + [[f[1], f[0]] for f in fs[:2]])
    strat = hs.builds(lambda h: dict(history=h), hist)

    def b(case):
        run_history(case)
        st.case(canon=case, nontrivial=any(max(f) >= 10 for f in case["history"]), classes=["history"],
                sample=case)

    hyp_search(st, strat, b, seed=seed, max_examples=n, check="c14.history", rounds=2)
    return st


def run(ctx):
    ctx.rule = (
        "exhaustive: every BoolGridFrame with 0 <= h, w <= 5 (thorough 8), variable ids starting at 0 and at "
        "an offset; every doubled coordinate in [-2, 2h+2] x [-2, 2w+2], every cell in [-1, h+1]^2, every "
        "point in [-1, h+2]^2, both call styles; all_edges/iteration; dual, dual of dual, inner iteration; "
        "the (edge list, graph) inferred by the loop constraints. non-trivial = frame with h, w >= 1 and a "
        "coordinate on the outer boundary or outside; distinct by construction. Histories: 3-7 frames with "
        "sides from {0..3, 10..13, 21, 23} (and transposes) built and interrogated in one process")
    ctx.exhaustive = False  # the single-frame part is exhaustive in its scope, the histories are sampled
    side = 5 if ctx.quick() else 8
    jobs = [(h, w, base) for h in range(side + 1) for w in range(side + 1) for base in (0, 3)]
    for r in pmap(check_frame, jobs):
        ctx.stats.merge(r)
    ctx.floor("frames", len(jobs), 60)
    for r in pmap(shard_history, [(ctx.seed * 1000 + i, 12 if ctx.quick() else 150) for i in range(8)]):
        ctx.stats.merge(r)
    ctx.floor("histories of several frames in one process", ctx.stats.classes["history"], 40)


def replay(ctx, rep):
    c = rep["case"]
    if "history" in c:
        run_history(c)
        return
    st = check_frame((c["h"], c["w"], c.get("base", 0)))
    if st.failures:
        sig, d = sorted(st.failures.items())[0]
        raise Failure(sig, observed=d["observed"], expected=d["expected"])
