"""C08 - not_adjacent / not_adjacent_and_not_segmenting match their graph definitions.

All 2^n patterns of every small graph / grid are decided on the posted program by the
independent RefSolver and compared with the definition (no edge with both ends active; plus:
the inactive vertices induce a connected subgraph, none counting as connected).  On grids the
specialised encoding, the explicit-graph form on the reference grid graph and the definition
are compared three-way.
"""

from checks import c04
from vlib import encq, graphref
from vlib.harness import Failure, Stats, hyp_search, pmap, repo_frame_sig

LEVEL = "exploration"


def reference(n, edges, pat, segmenting):
    if not graphref.no_two_adjacent(n, edges, pat):
        return False
    if segmenting:
        return graphref.induced_connected(n, edges, [not x for x in pat])
    return True


def post(case, solver, arr):
    from cspuz import graph

    f = (graph.active_vertices_not_adjacent_and_not_segmenting if case["segmenting"]
         else graph.active_vertices_not_adjacent)
    if case["form"] == "grid":
        f(solver, arr)
    else:
        n, edges = c04.spec_of(case)
        f(solver, arr, c04.make_graph(n, edges))


def tag(case):
    shape = ""
    if "grid" in case:
        h, w = case["grid"]
        shape = "|1xN" if (h == 1 or w == 1) else "|HxW"
    return "%s|%s%s" % ("not-segmenting" if case["segmenting"] else "not-adjacent", case["form"], shape)


def projection_case(case, st):
    from cspuz import Solver

    n, edges = c04.spec_of(case)
    s = Solver()
    arr = s.bool_array(tuple(case["grid"])) if case["form"] == "grid" else s.bool_array(n)
    try:
        post(case, s, arr)
    except Exception as e:
        st.fail(Failure("posting-raises|%s|%s" % (tag(case), repo_frame_sig(e)), observed=str(e)[:150]),
                case, "c08.projection")
        return
    q = encq.Query(s)
    ids = [v.id for v in arr]
    for pat in graphref.patterns(n):
        want = reference(n, edges, pat, case["segmenting"])
        got = q.admits(ids, pat)
        k = sum(pat)
        nt = k >= 2 and graphref.no_two_adjacent(n, edges, pat)
        cl = ["proj:" + tag(case)]
        if "grid" in case and 1 in case["grid"]:
            cl.append("single-row-or-column")
        sub = dict(case, pattern=[int(x) for x in pat])
        st.case(nontrivial=nt, counted=True, classes=cl, sample=sub if nt else None)
        if got != want:
            st.fail(Failure(("admits-invalid|" if got else "rejects-valid|") + tag(case),
                            observed=got, expected=want), sub, "c08.projection")


def e2e_case(case):
    """pattern pinned, find_answer on the default backend (the segmenting grid form takes
    BoolArray2D, the graph form BoolArray1D)"""
    from cspuz import Solver

    n, edges = c04.spec_of(case)
    pat = [bool(x) for x in case["pattern"]]
    s = Solver()
    arr = s.bool_array(tuple(case["grid"])) if case["form"] == "grid" else s.bool_array(n)
    for v, p in zip(arr, pat):
        s.ensure(v if p else ~v)
    try:
        post(case, s, arr)
        res = s.find_answer()
    except Exception as e:
        raise Failure("e2e-raises|%s|%s" % (tag(case), repo_frame_sig(e)), observed=str(e)[:150])
    want = reference(n, edges, pat, case["segmenting"])
    if res != want:
        raise Failure(("e2e-admits-invalid|" if res else "e2e-rejects-valid|") + tag(case),
                      observed=res, expected=want)


def shard_enum(cases):
    st = Stats()
    for c in cases:
        projection_case(c, st)
    return st


def shard_drawn(arg):
    seed, n_graphs, max_n = arg
    st = Stats()
    from hypothesis import strategies as hs

    def body(case):
        st2 = Stats()
        projection_case(case, st2)
        st.merge_counts(st2)
        if st2.failures:
            sig, d = sorted(st2.failures.items())[0]
            raise Failure(sig, observed=d["observed"], expected=d["expected"], detail=d["case"])

    strat = hs.builds(lambda g, seg: dict(g, segmenting=seg, form="graph"),
                      c04.graph_strategy(max_n, True), hs.booleans())
    hyp_search(st, strat, body, seed=seed, max_examples=n_graphs, check="c08.projection-drawn")
    return st


def shard_e2e(arg):
    seed, n = arg
    st = Stats()
    from hypothesis import strategies as hs

    @hs.composite
    def c(draw):
        h = draw(hs.integers(1, 4))
        w = draw(hs.integers(1, max(1, 10 // h)))
        if draw(hs.booleans()):
            h, w = w, h
        cells = h * w
        # sparse patterns (the interesting half: no two adjacent)
        pat = [1 if draw(hs.integers(0, 3)) == 0 else 0 for _ in range(cells)]
        return dict(grid=[h, w], form=draw(hs.sampled_from(["grid", "graph"])),
                    segmenting=draw(hs.booleans()), pattern=pat)

    def body(case):
        n, edges = c04.spec_of(case)
        nt = sum(case["pattern"]) >= 2 and graphref.no_two_adjacent(n, edges, case["pattern"])
        st.case(canon=case, nontrivial=nt, classes=["e2e", "e2e:" + tag(case)], sample=case if nt else None)
        e2e_case(case)

    hyp_search(st, c(), body, seed=seed, max_examples=n, check="c08.e2e")
    return st


def shard_large(arg):
    """boards beyond the exhaustive scope: constructed patterns (border-rooted diagonal zig-zag chains
    plus isolated cells) decided on the grid encoding through one Query per shape"""
    seed, shapes, n = arg
    st = Stats()
    from cspuz import Solver
    from hypothesis import strategies as hs

    for (h, w) in shapes:
        s = Solver()
        arr = s.bool_array((h, w))
        case0 = dict(grid=[h, w], segmenting=True, form="grid")
        try:
            post(case0, s, arr)
        except Exception as e:
            st.fail(Failure("posting-raises|%s|%s" % (tag(case0), repo_frame_sig(e)), observed=str(e)[:150]),
                    case0, "c08.large")
            continue
        q = encq.Query(s)
        ids = [v.id for v in arr]
        edges = graphref.grid_edges(h, w)

        @hs.composite
        def pattern(draw):
            act = set()

            def ok(c):
                y, x = c
                return (0 <= y < h and 0 <= x < w and c not in act and
                        not any(p in act for p in ((y - 1, x), (y + 1, x), (y, x - 1), (y, x + 1))))

            for _ in range(draw(hs.integers(1, 3))):
                # a chain starting on the border and zig-zagging along diagonals
                side = draw(hs.integers(0, 3))
                cur = {0: (0, draw(hs.integers(0, w - 1))), 1: (h - 1, draw(hs.integers(0, w - 1))),
                       2: (draw(hs.integers(0, h - 1)), 0), 3: (draw(hs.integers(0, h - 1)), w - 1)}[side]
                if not ok(cur):
                    continue
                act.add(cur)
                for _ in range(draw(hs.integers(0, h + w))):
                    dirs = [(cur[0] + dy, cur[1] + dx) for dy in (-1, 1) for dx in (-1, 1)]
                    dirs = [c for c in dirs if ok(c)]
                    if not dirs:
                        break
                    cur = dirs[draw(hs.integers(0, len(dirs) - 1))]
                    act.add(cur)
            for _ in range(draw(hs.integers(0, 3))):
                c = (draw(hs.integers(0, h - 1)), draw(hs.integers(0, w - 1)))
                if ok(c) or draw(hs.integers(0, 5)) == 0:
                    act.add(c)
            return sorted(list(c) for c in act)

        def body(cells):
            act = {tuple(c) for c in cells}
            pat = [(y, x) in act for y in range(h) for x in range(w)]
            want = reference(h * w, edges, pat, True)
            got = q.admits(ids, pat)
            case = dict(case0, pattern=[int(x) for x in pat])
            st.case(canon=case, nontrivial=len(act) >= 2, classes=["large-board", "large:%dx%d" % (h, w),
                                                                     "large:" + ("valid" if want else "invalid")],
                    sample=case if len(act) >= 4 else None)
            if got != want:
                raise Failure(("admits-invalid|" if got else "rejects-valid|") + tag(case0) + "|large-board",
                              observed=got, expected=want)

        hyp_search(st, pattern(), body, seed=seed + h * 10 + w, max_examples=n, check="c08.large")
    return st


def serpentine(h, w):
    """one long loop-free diagonal chain hanging off the border cell (0, 0): zig-zag passes along the row
    pairs (1,2), (4,5), (7,8), .. joined by single turn cells; covers more than a quarter of a big board"""
    cells = [(0, 0)]
    y0, x, d = 1, 1, 1
    while y0 + 1 <= h - 2:
        top = True
        while (x <= w - 3 if d == 1 else x >= 2) and 1 <= x <= w - 2:
            cells.append((y0 if top else y0 + 1, x))
            top = not top
            x += d
        x -= d
        if cells[-1][0] != y0 + 1:
            cells.pop()
            x -= d
        if y0 + 4 > h - 2 or not (1 <= x + d <= w - 2):
            break
        cells.append((y0 + 2, x + d))
        d = -d
        y0 += 3
    return cells


def shard_serpentine(arg):
    """boards of 150-330 cells: the serpentine, its prefixes, mirror images and transposes, and the same
    with one more cell that touches the border again or closes a loop; grid form, all cells pinned,
    decided by find_answer; the pattern's validity comes from the reference definition"""
    h, w, variant = arg
    st = Stats()
    from cspuz import Solver

    tr = variant & 1
    hh, ww = (w, h) if tr else (h, w)
    base = serpentine(hh, ww)
    pats = [("full", base), ("prefix", base[:len(base) * 2 // 3]), ("detached", base[1:])]
    y, x = base[-1]
    pats.append(("extra-cell", base + [(y + 1, x + 1)]))
    pats.append(("second-border-contact", base + [(hh - 1, base[-1][1] + (1 if (hh - 1 - base[-1][0]) % 2 else 0))]))
    for name, cells in pats:
        cells = [(y_, x_) for y_, x_ in cells if 0 <= y_ < hh and 0 <= x_ < ww]
        if variant & 2:
            cells = [(hh - 1 - y_, x_) for y_, x_ in cells]
        if variant & 4:
            cells = [(y_, ww - 1 - x_) for y_, x_ in cells]
        if tr:
            cells = [(x_, y_) for y_, x_ in cells]
        act = set(cells)
        pat = [(y_, x_) in act for y_ in range(h) for x_ in range(w)]
        want = reference(h * w, graphref.grid_edges(h, w), pat, True)
        case = dict(grid=[h, w], segmenting=True, form="grid", serpentine=name, variant=variant, active=len(act))
        st.case(canon=case, nontrivial=True, classes=["serpentine", "serpentine:" + ("valid" if want else "invalid")] +
                (["serpentine:valid>quarter"] if want and len(act) * 4 > h * w + 3 else []),
                sample=case)
        s = Solver()
        arr = s.bool_array((h, w))
        try:
            post(case, s, arr)
            for y_ in range(h):
                for x_ in range(w):
                    s.ensure(arr[y_, x_] if (y_, x_) in act else ~arr[y_, x_])
            got = s.find_answer()
        except Exception as e:
            st.fail(Failure("serpentine-raises|" + repo_frame_sig(e), observed=str(e)[:150]), case, "c08.serpentine")
            continue
        if got != want:
            st.fail(Failure(("admits-invalid|" if got else "rejects-valid|") + tag(case) + "|serpentine",
                            observed=got, expected=want), case, "c08.serpentine")
    return st


def run(ctx):
    ctx.rule = (
        "every labelled simple graph on 1..4 (thorough 5) vertices, Hypothesis-drawn multigraphs up to 7 "
        "(8) vertices, every grid shape with h*w <= 12 (16) incl. 1xN and Nx1 in three forms (specialised "
        "grid encoding, explicit-graph form on the reference grid graph, definition); ALL 2^n patterns "
        "decided on the posted program by an independent solver; plus pinned-pattern find_answer runs; plus, "
        "beyond the exhaustive scope, boards 4x6 .. 7x5 / 4x9 (thorough up to 8x8) with constructed patterns "
        "(border-rooted diagonal zig-zag chains and isolated cells) decided on the grid encoding. "
        "non-trivial = >= 2 active vertices, none adjacent; distinct by construction / case hash")
    ctx.assumptions = ["an empty set of inactive vertices counts as connected (as in C04)"]
    quick = ctx.quick()
    cases = []
    for n in range(1, (4 if quick else 5) + 1):
        for edges in graphref.all_simple_graphs(n):
            for ev in c04.orientation_variants(edges):
                for seg in (False, True):
                    cases.append(dict(n=n, edges=ev, segmenting=seg, form="graph"))
    cells = 12 if quick else 16
    for h in range(1, cells + 1):
        for w in range(1, cells // h + 1):
            for seg in (False, True):
                for form in ("grid", "graph"):
                    cases.append(dict(grid=[h, w], segmenting=seg, form=form))
    cases.sort(key=lambda c: -(2 ** c04.spec_of(c)[0]))
    k = 16 if quick else 64
    for r in pmap(shard_enum, [cases[i::k] for i in range(k)]):
        ctx.stats.merge(r)
    for r in pmap(shard_drawn, [(ctx.seed * 1000 + i, 10 if quick else 60, 7 if quick else 8)
                                for i in range(8 if quick else 16)]):
        ctx.stats.merge(r)
    for r in pmap(shard_e2e, [(ctx.seed * 1000 + 30 + i, 80 if quick else 1500) for i in range(8 if quick else 16)]):
        ctx.stats.merge(r)
    big = [(4, 6), (6, 4), (5, 5), (4, 7), (5, 7), (6, 6), (7, 5), (4, 9)] if quick else \
        [(4, 6), (6, 4), (5, 5), (4, 7), (7, 4), (5, 7), (7, 5), (6, 6), (4, 9), (9, 4), (7, 7), (6, 8), (8, 8)]
    for r in pmap(shard_large, [(ctx.seed * 1000 + 70 + i, [sh], 160 if quick else 1500) for i, sh in enumerate(big)]):
        ctx.stats.merge(r)
    serp = [(10, 25), (25, 10), (7, 33), (13, 23)] if quick else [(10, 25), (25, 10), (7, 33), (13, 23), (10, 16), (16, 20), (11, 30), (8, 24)]
    for r in pmap(shard_serpentine, [(h_, w_, v) for (h_, w_) in serp for v in ((0, 3, 5, 6) if quick else range(8))]):
        ctx.stats.merge(r)
    cl = ctx.stats.classes
    ctx.floor("valid serpentines longer than a quarter of the board", cl["serpentine:valid>quarter"], 6)
    ctx.floor("invalid serpentine variants", cl["serpentine:invalid"], 8)
    ctx.floor("large-board patterns that are valid", cl["large:valid"], 100)
    ctx.floor("patterns on single-row/column grids", cl["single-row-or-column"], 5000)
    ctx.floor("e2e cases", cl["e2e"], 300)


def replay(ctx, rep):
    case = rep["case"]
    if rep.get("check") == "c08.e2e":
        e2e_case(case)
        return
    if rep.get("check") == "c08.serpentine":
        st = shard_serpentine((case["grid"][0], case["grid"][1], case["variant"]))
        if st.failures:
            sig, d = sorted(st.failures.items())[0]
            raise Failure(sig, observed=d["observed"], expected=d["expected"])
        return
    st = Stats()
    c = dict(case)
    c.pop("pattern", None)
    projection_case(c, st)
    if st.failures:
        sig, d = sorted(st.failures.items())[0]
        raise Failure(sig, observed=d["observed"], expected=d["expected"])
