"""C09 - active_edges_acyclic admits exactly the forests.

All 2^m edge subsets of every loop-free multigraph with n <= 4, m <= 6 (edge multisets) and
of Hypothesis-drawn multigraphs up to n <= 6, m <= 9 are decided on the posted program by the
independent RefSolver and compared with union-find; plus find_answer runs with the flags given
as variables, negated variables, expressions and constants.
"""

import itertools

from checks import c04
from vlib import encq, graphref
from vlib.harness import Failure, Stats, hyp_search, pmap, repo_frame_sig

LEVEL = "exploration"


def has_parallel(edges):
    s = [tuple(sorted(e)) for e in edges]
    return len(set(s)) != len(s)


def projection_case(case, st):
    from cspuz import Solver, graph

    n = case["n"]
    edges = [tuple(e) for e in case["edges"]]
    m = len(edges)
    s = Solver()
    flags = s.bool_array(m)
    try:
        graph.active_edges_acyclic(s, flags, c04.make_graph(n, edges))
    except Exception as e:
        st.fail(Failure("posting-raises|" + repo_frame_sig(e), observed=str(e)[:150]), case, "c09.projection")
        return
    q = encq.Query(s)
    ids = [v.id for v in flags]
    par = has_parallel(edges)
    for pat in graphref.patterns(m):
        want = graphref.edges_acyclic(n, edges, pat)
        got = q.admits(ids, pat)
        k = sum(pat)
        active_par = has_parallel([e for e, a in zip(edges, pat) if a])
        nt = k >= 3 or active_par
        cl = ["projection"]
        if par:
            cl.append("graph-with-parallel-edge")
        if active_par:
            cl.append("active-parallel-pair")
        sub = dict(case, pattern=[int(x) for x in pat])
        st.case(nontrivial=nt, counted=True, classes=cl, sample=sub if nt else None)
        if got != want:
            st.fail(Failure(("admits-cycle" if got else "rejects-forest") + ("|parallel" if active_par else ""),
                            observed=got, expected=want), sub, "c09.projection")


def long_case(case, cache=None):
    """graphs beyond the exhaustive scope (17-49 vertices): long paths, cycles, stars and grid graphs
    with winding active edge sets; one pattern per case, decided on the posted program"""
    from cspuz import Solver, graph

    n = case["n"]
    edges = [tuple(e) for e in case["edges"]]
    key = (n, tuple(edges))
    if cache is not None and key in cache:
        q, ids = cache[key]
    else:
        s = Solver()
        flags = s.bool_array(len(edges))
        graph.active_edges_acyclic(s, flags, c04.make_graph(n, edges))
        q = encq.Query(s)
        ids = [v.id for v in flags]
        if cache is not None:
            cache.clear()
            cache[key] = (q, ids)
    pat = [bool(x) for x in case["pattern"]]
    want = graphref.edges_acyclic(n, edges, pat)
    got = q.admits(ids, pat)
    if got != want:
        raise Failure(("admits-cycle" if got else "rejects-forest") + "|long", observed=got, expected=want,
                      detail=dict(n=n, family=case.get("family")))
    return want


def shard_long(arg):
    from hypothesis import strategies as hs
    from vlib import winding

    seed, n_cases = arg
    st = Stats()
    cache = {}

    @hs.composite
    def c(draw):
        fam = draw(hs.sampled_from(["path", "path", "cycle", "star", "grid", "grid"]))
        if fam in ("path", "cycle"):
            n = draw(hs.integers(17, 45))
            edges = [[i, i + 1] for i in range(n - 1)]
            if fam == "cycle":
                edges.append([n - 1, 0])
            pat = [1] * len(edges)
            for _ in range(draw(hs.sampled_from([0, 0, 0, 1, 2]))):
                pat[draw(hs.integers(0, len(pat) - 1))] = 0
            if draw(hs.booleans()):   # vertex ids in another order along the path
                perm = draw(hs.permutations(list(range(n))))
                edges = [[perm[u], perm[v]] for u, v in edges]
        elif fam == "star":
            n = draw(hs.integers(17, 30))
            edges = [[0, i] for i in range(1, n)] + [[1, 2]]
            pat = [1] * (n - 1) + [draw(hs.integers(0, 1))]
        else:
            h, w = draw(hs.sampled_from([(5, 5), (6, 6), (4, 8), (7, 7), (3, 12)]))
            n = h * w
            edges = [list(e) for e in graphref.grid_edges(h, w)]
            eid = {tuple(sorted(e)): i for i, e in enumerate(edges)}
            _, cells = winding.shapes(draw, hs, h, w)
            pat = [0] * len(edges)
            for a, b in zip(cells, cells[1:]):
                k = eid.get(tuple(sorted((a[0] * w + a[1], b[0] * w + b[1]))))
                if k is not None:
                    pat[k] = 1
            if draw(hs.integers(0, 2)) == 0:
                pat[draw(hs.integers(0, len(pat) - 1))] = 1   # one more edge: may close a cycle
        return dict(n=n, edges=edges, pattern=pat, family=fam)

    def body(case):
        want = long_case(case, cache)
        st.case(canon=case, nontrivial=True, classes=["long", "long:" + case["family"], "long:" + ("forest" if want else "cyclic")],
                sample=None)

    hyp_search(st, c(), body, seed=seed, max_examples=n_cases, check="c09.long", rounds=2)
    return st


FORMS = ["vars", "negated", "expr", "const", "list"]


def grown_case(case, st):
    """ONE Graph object serves several calls, add_edge in between (case['stages'] = increasing edge
    counts); after each stage all edge subsets are decided against the graph as it is then"""
    from cspuz import Solver, graph

    n = case["n"]
    edges = [tuple(e) for e in case["edges"]]
    g = graph.Graph(n)
    k = 0
    for si, end in enumerate(case["stages"]):
        for u, v in edges[k:end]:
            g.add_edge(u, v)
        k = end
        if k == 0:
            continue
        cur = edges[:k]
        s = Solver()
        flags = s.bool_array(k)
        try:
            graph.active_edges_acyclic(s, flags, g)
        except Exception as e:
            st.fail(Failure("posting-raises|grown|" + repo_frame_sig(e), observed=str(e)[:150]), case, "c09.grown")
            return
        q = encq.Query(s)
        ids = [v.id for v in flags]
        for pat in graphref.patterns(k):
            want = graphref.edges_acyclic(n, cur, pat)
            got = q.admits(ids, pat)
            nt = si >= 1 and sum(pat) >= 3
            sub = dict(case, pattern=[int(x) for x in pat], stage=si)
            st.case(nontrivial=nt, counted=True, classes=["grown", "grown-stage>=1" if si else "grown-stage0"],
                    sample=sub if nt else None)
            if got != want:
                st.fail(Failure(("admits-cycle" if got else "rejects-forest") + "|grown", observed=got, expected=want),
                        sub, "c09.grown")
                return


def shard_grown(arg):
    seed, n_graphs = arg
    st = Stats()
    from hypothesis import strategies as hs

    @hs.composite
    def c(draw):
        g = draw(multigraph_strategy(6, 8))
        m = len(g["edges"])
        cuts = sorted(set(draw(hs.lists(hs.integers(1, m), min_size=1, max_size=3))))
        return dict(g, stages=[x for x in cuts if x < m] + [m])

    def body(case):
        st2 = Stats()
        grown_case(case, st2)
        st.merge_counts(st2)
        if st2.failures:
            sig, d = sorted(st2.failures.items())[0]
            raise Failure(sig, observed=d["observed"], expected=d["expected"], detail=d["case"])

    hyp_search(st, c(), body, seed=seed, max_examples=n_graphs, check="c09.grown")
    return st


def e2e_case(case):
    from cspuz import Solver, graph

    n = case["n"]
    edges = [tuple(e) for e in case["edges"]]
    pat = [bool(x) for x in case["pattern"]]
    form = case["form"]
    s = Solver()
    x = s.bool_array(len(edges))
    flags = []
    for i, p in enumerate(pat):
        if form == "vars":
            s.ensure(x[i] == p)
            flags.append(x[i])
        elif form == "negated":
            s.ensure(x[i] == (not p))
            flags.append(~x[i])
        elif form == "expr":
            j = (i + 1) % len(pat)
            s.ensure(x[i] == p)
            flags.append((x[i] & x[j]) | (x[i] & ~x[j]))
        elif form == "const":
            flags.append(p)
        else:
            s.ensure(x[i] if p else ~x[i])
            flags.append(x[i])
    arg = flags if form in ("const", "list", "expr", "negated") else x
    try:
        graph.active_edges_acyclic(s, arg, c04.make_graph(n, edges))
        res = s.find_answer()
    except Exception as e:
        raise Failure("e2e-raises|%s|%s" % (form, repo_frame_sig(e)), observed=str(e)[:150])
    want = graphref.edges_acyclic(n, edges, pat)
    if res != want:
        raise Failure(("e2e-admits-cycle|" if res else "e2e-rejects-forest|") + form, observed=res, expected=want)


def shard_enum(cases):
    st = Stats()
    for c in cases:
        projection_case(c, st)
    return st


def multigraph_strategy(max_n, max_m):
    from hypothesis import strategies as hs

    @hs.composite
    def g(draw):
        n = draw(hs.integers(2, max_n))
        pairs = [(u, v) for u in range(n) for v in range(n) if u != v]
        edges = draw(hs.lists(hs.sampled_from(pairs), min_size=1, max_size=max_m))
        if draw(hs.integers(0, 3)) == 0 and edges:
            edges.append(edges[draw(hs.integers(0, len(edges) - 1))])  # force a parallel edge
        return dict(n=n, edges=[list(e) for e in edges[:max_m]])

    return g()


def shard_drawn(arg):
    seed, n_graphs, max_n, max_m = arg
    st = Stats()

    def body(case):
        st2 = Stats()
        projection_case(case, st2)
        st.merge_counts(st2)
        if st2.failures:
            sig, d = sorted(st2.failures.items())[0]
            raise Failure(sig, observed=d["observed"], expected=d["expected"], detail=d["case"])

    hyp_search(st, multigraph_strategy(max_n, max_m), body, seed=seed, max_examples=n_graphs,
               check="c09.projection-drawn")
    return st


def shard_e2e(arg):
    seed, n = arg
    st = Stats()
    from hypothesis import strategies as hs

    @hs.composite
    def c(draw):
        g = draw(multigraph_strategy(6, 9))
        m = len(g["edges"])
        return dict(g, pattern=draw(hs.lists(hs.integers(0, 1), min_size=m, max_size=m)),
                    form=draw(hs.sampled_from(FORMS)))

    def body(case):
        nt = sum(case["pattern"]) >= 3
        st.case(canon=case, nontrivial=nt, classes=["e2e", "e2e-form:" + case["form"]],
                sample=case if nt else None)
        e2e_case(case)

    hyp_search(st, c(), body, seed=seed, max_examples=n, check="c09.e2e")
    return st


def run(ctx):
    ctx.rule = (
        "every loop-free multigraph (multiset of vertex pairs, both orientations of the first edge) with "
        "n <= 4, m <= 6 (thorough: n <= 5, m <= 6) and Hypothesis-drawn multigraphs with n <= 6, m <= 9: "
        "ALL 2^m edge subsets decided on the posted program by an independent solver vs union-find; plus "
        "find_answer runs with flags as variables / negated variables / expressions / constants. "
        "non-trivial = >= 3 active edges or an active parallel pair; distinct by construction / case hash")
    quick = ctx.quick()
    cases = []
    for n in range(2, (4 if quick else 5) + 1):
        pairs = [(u, v) for u in range(n) for v in range(u + 1, n)]
        for m in range(1, 7):
            if n == 5 and m > 5:
                continue
            for combo in itertools.combinations_with_replacement(pairs, m):
                # every vertex pair list; flip orientation of odd-indexed edges
                edges = [list(e) if i % 2 == 0 else [e[1], e[0]] for i, e in enumerate(combo)]
                cases.append(dict(n=n, edges=edges))
    cases.sort(key=lambda c: -len(c["edges"]))
    k = 16 if quick else 64
    for r in pmap(shard_enum, [cases[i::k] for i in range(k)]):
        ctx.stats.merge(r)
    for r in pmap(shard_drawn, [(ctx.seed * 1000 + i, 12 if quick else 100, 6, 9) for i in range(8 if quick else 16)]):
        ctx.stats.merge(r)
    for r in pmap(shard_e2e, [(ctx.seed * 1000 + 40 + i, 80 if quick else 2000) for i in range(8 if quick else 16)]):
        ctx.stats.merge(r)
    for r in pmap(shard_long, [(ctx.seed * 1000 + 70 + i, 12 if quick else 200) for i in range(8)]):
        ctx.stats.merge(r)
    for r in pmap(shard_grown, [(ctx.seed * 1000 + 90 + i, 15 if quick else 150) for i in range(8 if quick else 16)]):
        ctx.stats.merge(r)
    cl = ctx.stats.classes
    ctx.floor("edge subsets on a Graph object that grew after an earlier use", cl["grown-stage>=1"], 1000)
    ctx.floor("long graphs: forests", cl["long:forest"], 25)
    ctx.floor("long graphs: cyclic edge sets", cl["long:cyclic"], 5)
    ctx.floor("patterns on graphs with a parallel edge (share)",
              round(cl["graph-with-parallel-edge"] / max(1, cl["projection"]), 3), 0.15)
    ctx.floor("patterns with an active parallel pair", cl["active-parallel-pair"], 500)
    for f in FORMS:
        ctx.floor("e2e form " + f, cl["e2e-form:" + f], 30)


def replay(ctx, rep):
    case = rep["case"]
    if rep.get("check") == "c09.long":
        long_case(case)
        return
    if rep.get("check") == "c09.e2e":
        e2e_case(case)
        return
    if rep.get("check") == "c09.grown":
        st = Stats()
        c = dict(case)
        c.pop("pattern", None)
        c.pop("stage", None)
        grown_case(c, st)
        if st.failures:
            sig, d = sorted(st.failures.items())[0]
            raise Failure(sig, observed=d["observed"], expected=d["expected"])
        return
    st = Stats()
    c = dict(case)
    c.pop("pattern", None)
    projection_case(c, st)
    if st.failures:
        sig, d = sorted(st.failures.items())[0]
        raise Failure(sig, observed=d["observed"], expected=d["expected"])
