"""C06 - active_edges_single_cycle / single_path admit exactly one simple cycle / path.

All 2^m edge subsets of small multigraphs and grid frames are decided on the posted program by
the independent RefSolver (fixed-pattern probing for m <= 12, AllSAT projection compared with a
DFS enumeration of the lattice's simple cycles / paths otherwise) and compared with the
degree + connectivity definition; for every admitted pattern the returned array must be
forced to 'true exactly at the visited vertices' (and have the lattice's shape for frames).
"""

import itertools

from checks import c04, c09
from vlib import encq, fakesolver, graphref, lattice, refsem
from vlib.harness import Failure, Stats, hyp_search, pmap, repo_frame_sig

LEVEL = "exploration"
PROBE_LIMIT = 12


def reference(kind, n, edges, pat):
    return graphref.single_cycle(n, edges, pat) if kind == "cycle" else graphref.single_path(n, edges, pat)


def tag(case):
    return "%s|%s|%s%s" % (case["kind"], "native" if case["native"] else "rank",
                           "frame" if "frame" in case else "graph",
                           "|graph-reused-after-add_edge" if case.get("warm") is not None else "")


def post(case, s):
    """-> (edge variable ids in reference edge order, n, edges, passed ids row-major, passed array)"""
    from cspuz import BoolGridFrame, graph

    f = graph.active_edges_single_cycle if case["kind"] == "cycle" else graph.active_edges_single_path
    if "frame" in case:
        h, w = case["frame"]
        L = lattice.Lattice(h, w)
        frame = BoolGridFrame(s, h, w)
        # construction order: horizontal (h+1) x w row-major, then vertical h x (w+1)
        evars = list(frame.horizontal.data) + list(frame.vertical.data)
        passed = f(s, frame, use_graph_primitive=case["native"])
        n, edges = L.graph()
        from cspuz.array import BoolArray2D
        if not isinstance(passed, BoolArray2D) or tuple(passed.shape) != (h + 1, w + 1):
            raise Failure("returned-array-shape|" + tag(case),
                          observed=[type(passed).__name__, list(getattr(passed, "shape", []))],
                          expected=[h + 1, w + 1])
        pids = [passed[y, x].id for y in range(h + 1) for x in range(w + 1)]
    else:
        n = case["n"]
        edges = [tuple(e) for e in case["edges"]]
        flags = s.bool_array(len(edges))
        evars = list(flags)
        warm = case.get("warm")
        if warm is None or (case["kind"] == "path" and not case["native"]):
            g = c04.make_graph(n, edges)
        else:
            # a Graph object that was already used by the same constraint before more edges were added
            from cspuz import Solver as _S
            g = graph.Graph(n)
            for u, v in edges[:warm]:
                g.add_edge(u, v)
            s0 = _S()
            f(s0, s0.bool_array(warm), g, use_graph_primitive=case["native"])
            for u, v in edges[warm:]:
                g.add_edge(u, v)
        passed = f(s, flags, g, use_graph_primitive=case["native"])
        from cspuz.array import BoolArray1D
        if not isinstance(passed, BoolArray1D) or len(passed) != n:
            raise Failure("returned-array-shape|" + tag(case), observed=type(passed).__name__)
        pids = [v.id for v in passed]
    return [v.id for v in evars], n, edges, pids


def check_pattern(case, q, eids, n, edges, pids, pat, st, want=None):
    if want is None:
        want = reference(case["kind"], n, edges, pat)
    got = q.admits(eids, pat)
    k = sum(pat)
    d = graphref.degrees(n, edges, pat)
    two_cycles = k >= 4 and all(x in (0, 2) for x in d) and not graphref.active_edges_connected(n, edges, pat)
    nt = k >= 3 or two_cycles
    cl = ["pattern", "pat:" + tag(case)]
    if two_cycles:
        cl.append("two-disjoint-cycles")
    if c09.has_parallel(edges):
        cl.append("graph-with-parallel-edge")
    if k == 0:
        cl.append("empty-edge-set")
    sub = dict(case, pattern=[int(x) for x in pat])
    st.case(nontrivial=nt, counted=True, classes=cl, sample=sub if nt else None)
    if got != want:
        sig = ("admits-invalid|" if got else ("rejects-empty|" if k == 0 else "rejects-valid|")) + tag(case)
        st.fail(Failure(sig, observed=got, expected=want), sub, "c06.pattern")
        return
    if got:
        vis = graphref.visited(n, edges, pat)
        if not q.forced(eids, pat, pids, vis):
            st.fail(Failure("passed-array-not-exact|" + tag(case), observed="another value is possible",
                            expected=[int(x) for x in vis]), sub, "c06.pattern")


def run_case(case, st):
    from cspuz import Solver

    s = Solver()
    try:
        eids, n, edges, pids = post(case, s)
    except Failure as f:
        st.fail(f, case, "c06.post")
        return
    except RuntimeError as e:
        if str(e) == "TODO" and case["kind"] == "path" and not case["native"]:
            st.case(nontrivial=False, counted=True, classes=["path-rank-form-documented-TODO"])
            return
        st.fail(Failure("posting-raises|%s|%s" % (tag(case), repo_frame_sig(e)), observed=str(e)[:150]),
                case, "c06.post")
        return
    except Exception as e:
        st.fail(Failure("posting-raises|%s|%s" % (tag(case), repo_frame_sig(e)), observed=str(e)[:150]),
                case, "c06.post")
        return
    q = encq.Query(s)
    m = len(edges)
    try:
        if m <= PROBE_LIMIT:
            for pat in graphref.patterns(m):
                check_pattern(case, q, eids, n, edges, pids, pat, st)
        else:
            # projection: admitted set must equal {} + all simple cycles/paths (DFS enumeration)
            ref = lattice.simple_cycles(n, edges) if case["kind"] == "cycle" else lattice.simple_paths(n, edges)
            ref = set(ref) | {frozenset()}
            got = set()
            for vals in q.rs.allsat(eids, limit=len(ref) + 50):
                got.add(frozenset(i for i, v in enumerate(vals) if v))
            st.extra["projection_models"] = st.extra.get("projection_models", 0) + len(got)
            for fs in sorted(got - ref, key=sorted)[:3]:
                pat = [i in fs for i in range(m)]
                st.fail(Failure("admits-invalid|" + tag(case), observed=True, expected=False),
                        dict(case, pattern=[int(x) for x in pat]), "c06.projection")
            for fs in sorted(ref - got, key=sorted)[:3]:
                pat = [i in fs for i in range(m)]
                st.fail(Failure(("rejects-empty|" if not fs else "rejects-valid|") + tag(case),
                                observed=False, expected=True),
                        dict(case, pattern=[int(x) for x in pat]), "c06.projection")
            # returned array on every admitted pattern; plus the reference predicate agrees with DFS
            for fs in sorted(got & ref, key=sorted):
                pat = [i in fs for i in range(m)]
                if not reference(case["kind"], n, edges, pat):
                    raise RuntimeError("oracle self-check: DFS enumeration and predicate disagree")
                check_pattern(case, q, eids, n, edges, pids, pat, st, want=True)
            st.extra["patterns_covered_by_projection"] = st.extra.get("patterns_covered_by_projection", 0) + 2 ** m
    except refsem.MalformedAtom as e:
        st.fail(Failure("native-atom-malformed|" + tag(case), observed=str(e)), case, "c06")


def e2e_case(case):
    """pattern pinned, find_answer; the returned array's sol must be the visited vertices"""
    from cspuz import Solver

    s = Solver()
    try:
        eids, n, edges, pids = post(case, s)
    except Failure:
        raise
    except Exception as e:
        if isinstance(e, RuntimeError) and str(e) == "TODO":
            return
        raise Failure("e2e-raises|%s|%s" % (tag(case), repo_frame_sig(e)), observed=str(e)[:100])
    pat = [bool(x) for x in case["pattern"]]
    byid = {v.id: v for v in s.variables}
    for i, p in zip(eids, pat):
        s.ensure(byid[i] if p else ~byid[i])
    try:
        if case["native"]:
            with fakesolver.installed():
                res = s.find_answer(backend="cspuz_core")
            del fakesolver.CALLS[:]
        else:
            res = s.find_answer()
    except Exception as e:
        raise Failure("e2e-raises|%s|%s" % (tag(case), repo_frame_sig(e)), observed=str(e)[:150])
    want = reference(case["kind"], n, edges, pat)
    if res != want:
        raise Failure(("e2e-admits-invalid|" if res else "e2e-rejects-valid|") + tag(case),
                      observed=res, expected=want)
    if res:
        vis = graphref.visited(n, edges, pat)
        got = [byid[i].sol for i in pids]
        if got != vis:
            raise Failure("e2e-passed-sol-wrong|" + tag(case), observed=got, expected=vis)


def shard_enum(cases):
    st = Stats()
    for c in cases:
        run_case(c, st)
    return st


def shard_drawn(arg):
    seed, n_graphs = arg
    st = Stats()
    from hypothesis import strategies as hs

    def body(case):
        st2 = Stats()
        run_case(case, st2)
        st.merge_counts(st2)
        if st2.failures:
            sig, d = sorted(st2.failures.items())[0]
            raise Failure(sig, observed=d["observed"], expected=d["expected"], detail=d["case"])

    strat = hs.builds(lambda g, kind, nat, warm: dict(g, kind=kind, native=nat if kind == "cycle" else True,
                                                     warm=None if warm is None else warm % (len(g["edges"]) + 1)),
                      c09.multigraph_strategy(5, 8), hs.sampled_from(["cycle", "path"]), hs.booleans(),
                      hs.one_of(hs.none(), hs.integers(0, 8)))
    hyp_search(st, strat, body, seed=seed, max_examples=n_graphs, check="c06.drawn")
    return st


def selfloop_case(case, st=None):
    """graphs with self-loop edges (Graph.add_edge(v, v) is legal).  Whether a lone active self-loop is 'one
    simple cycle' is left open (don't care); everything else is not: with no active loop the loops are
    just absent, and an active loop together with any other active edge is never a single cycle."""
    from cspuz import Solver

    s = Solver()
    try:
        eids, n, edges, pids = post(case, s)
    except Exception as e:
        raise Failure("posting-raises|%s|%s|self-loop" % (tag(case), repo_frame_sig(e)), observed=str(e)[:150])
    q = encq.Query(s)
    loops = [i for i, (u, v) in enumerate(edges) if u == v]
    plain = [i for i in range(len(edges)) if i not in loops]
    counts = dict(checked=0, dont_care=0, loop_plus_more=0)
    for pat in graphref.patterns(len(edges)):
        active_loops = [i for i in loops if pat[i]]
        if active_loops and sum(pat) == 1:
            counts["dont_care"] += 1
            continue
        if active_loops:
            want = False
            counts["loop_plus_more"] += 1
        else:
            want = reference(case["kind"], n, [edges[i] for i in plain], [pat[i] for i in plain])
        got = q.admits(eids, pat)
        counts["checked"] += 1
        if got != want:
            raise Failure(("admits-invalid|" if got else "rejects-valid|") + tag(case) + "|self-loop",
                          observed=got, expected=want, detail=dict(case, pattern=[int(x) for x in pat]))
    return counts


def shard_selfloop(arg):
    seed, n_graphs = arg
    st = Stats()
    from hypothesis import strategies as hs

    @hs.composite
    def c(draw):
        g = draw(c09.multigraph_strategy(5, 6))
        edges = [list(e) for e in g["edges"]]
        for _ in range(draw(hs.integers(1, 2))):
            v = draw(hs.integers(0, g["n"] - 1))
            edges.insert(draw(hs.integers(0, len(edges))), [v, v])
        return dict(n=g["n"], edges=edges, kind="cycle", native=False, warm=None)

    def body(case):
        out = selfloop_case(case)
        st.case(canon=case, nontrivial=out["loop_plus_more"] >= 1, classes=["self-loop-graph"], sample=case)
        st.extra["self_loop_patterns"] = st.extra.get("self_loop_patterns", 0) + out["checked"]

    hyp_search(st, c(), body, seed=seed, max_examples=n_graphs, check="c06.selfloop", rounds=2)
    return st


def shard_e2e(arg):
    seed, n_cases = arg
    st = Stats()
    from hypothesis import strategies as hs

    @hs.composite
    def c(draw):
        kind = draw(hs.sampled_from(["cycle", "path"]))
        nat = True if kind == "path" else draw(hs.booleans())
        if draw(hs.booleans()):
            h = draw(hs.integers(0, 3))
            w = draw(hs.integers(0, 3))
            L = lattice.Lattice(h, w)
            n, edges = L.graph()
            base = dict(frame=[h, w])
        else:
            base = draw(c09.multigraph_strategy(5, 8))
            n, edges = base["n"], [tuple(e) for e in base["edges"]]
        m = len(edges)
        mode = draw(hs.integers(0, 2))
        if mode == 0 or m == 0:
            pat = draw(hs.lists(hs.integers(0, 1), min_size=m, max_size=m))
        else:
            # construct: a walk from a drawn start, following drawn choices (often a path or cycle)
            adj = [[] for _ in range(n)]
            for i, (u, v) in enumerate(edges):
                adj[u].append((v, i))
                adj[v].append((u, i))
            cur = draw(hs.integers(0, n - 1))
            seen = {cur}
            start = cur
            pat = [0] * m
            for _ in range(draw(hs.integers(1, 8))):
                opts = [(v, i) for v, i in adj[cur] if not pat[i] and (v not in seen or v == start)]
                if not opts:
                    break
                v, i = opts[draw(hs.integers(0, len(opts) - 1))]
                pat[i] = 1
                if v == start:
                    break
                seen.add(v)
                cur = v
            if mode == 2 and m:
                pat[draw(hs.integers(0, m - 1))] ^= 1
        return dict(base, kind=kind, native=nat, pattern=pat)

    def body(case):
        nt = sum(case["pattern"]) >= 3
        st.case(canon=case, nontrivial=nt, classes=["e2e", "e2e:" + tag(case)], sample=case if nt else None)
        e2e_case(case)

    hyp_search(st, c(), body, seed=seed, max_examples=n_cases, check="c06.e2e")
    return st


def run(ctx):
    ctx.rule = (
        "cycle (rank and native encodings) and path (native; the rank form raises the documented "
        "RuntimeError('TODO')): every loop-free multigraph with n <= 4, m <= 5 (thorough m <= 6, n <= 5) "
        "and Hypothesis-drawn multigraphs with n <= 5, m <= 8 (a fifth of the graphs as a Graph object that the same constraint already used before more edges were added); every BoolGridFrame with 0 <= h,w <= 2 plus "
        "0xk/1xk/3x1 by fixed-pattern probing of ALL 2^m subsets, the 2x3/3x2/3x3 (thorough 3x4) frames by AllSAT "
        "projection compared with a DFS enumeration of the lattice's simple cycles; for every admitted "
        "pattern the returned array is forced to the visited vertices. non-trivial = >= 3 active edges or "
        "two disjoint cycles; distinct by construction / case hash")
    ctx.assumptions = ["the rank form of active_edges_single_path raising RuntimeError('TODO') is documented behaviour",
                       "a pair of parallel edges is a 2-cycle",
                       "self-loop edges: whether a lone active self-loop counts as a cycle is not asserted; an active "
                       "self-loop together with any other active edge must be rejected; inactive self-loops are absent"]
    quick = ctx.quick()
    cases = []
    for n in range(2, (4 if quick else 5) + 1):
        pairs = [(u, v) for u in range(n) for v in range(u + 1, n)]
        for m in range(1, (5 if quick else 6) + 1):
            if n == 5 and m > 5:
                continue
            for combo in itertools.combinations_with_replacement(pairs, m):
                edges = [list(e) if i % 2 == 0 else [e[1], e[0]] for i, e in enumerate(combo)]
                for kind, nat in (("cycle", False), ("cycle", True), ("path", True)):
                    c_ = dict(n=n, edges=edges, kind=kind, native=nat)
                    if len(cases) % 5 == 0 and m >= 2:
                        c_["warm"] = m // 2  # Graph object reused after add_edge
                    cases.append(c_)
    frames = [(h, w) for h in range(0, 4) for w in range(0, 4) if not (h == 0 and w == 0)]
    if not quick:
        frames += [(3, 4), (4, 3), (1, 5), (0, 6)]
    for h, w in frames:
        m = (h + 1) * w + h * (w + 1)
        for kind, nat in (("cycle", False), ("cycle", True), ("path", True), ("path", False)):
            if kind == "path" and m > PROBE_LIMIT and (quick or m > 17):
                continue  # too many simple paths for the projection in this tier
            if m > 24 and not (kind == "cycle"):
                continue
            cases.append(dict(frame=[h, w], kind=kind, native=nat))

    def cost(c):
        m = len(c["edges"]) if "edges" in c else (c["frame"][0] + 1) * c["frame"][1] + c["frame"][0] * (c["frame"][1] + 1)
        return 2 ** min(m, 13) * (3 if c["native"] else 1)

    cases.sort(key=lambda c: -cost(c))
    k = 16 if quick else 64
    for r in pmap(shard_enum, [cases[i::k] for i in range(k)]):
        ctx.stats.merge(r)
    for r in pmap(shard_drawn, [(ctx.seed * 1000 + i, 10 if quick else 80) for i in range(8 if quick else 16)]):
        ctx.stats.merge(r)
    for r in pmap(shard_e2e, [(ctx.seed * 1000 + 70 + i, 100 if quick else 2000) for i in range(8 if quick else 16)]):
        ctx.stats.merge(r)
    for r in pmap(shard_selfloop, [(ctx.seed * 1000 + 90 + i, 8 if quick else 80) for i in range(8)]):
        ctx.stats.merge(r)
    cl = ctx.stats.classes
    ctx.floor("graphs with self-loop edges", cl["self-loop-graph"], 40)
    ctx.floor("patterns on graphs with a parallel edge (share)",
              round(cl["graph-with-parallel-edge"] / max(1, cl["pattern"]), 3), 0.15)
    ctx.floor("patterns with two disjoint cycles", cl["two-disjoint-cycles"], 50)
    ctx.floor("e2e cases", cl["e2e"], 300)


def replay(ctx, rep):
    case = rep["case"]
    if rep.get("check") == "c06.e2e":
        e2e_case(case)
        return
    if rep.get("check") == "c06.selfloop":
        selfloop_case(case)
        return
    st = Stats()
    c = dict(case)
    c.pop("pattern", None)
    run_case(c, st)
    if st.failures:
        sig, d = sorted(st.failures.items())[0]
        raise Failure(sig, observed=d["observed"], expected=d["expected"])
