"""C16 - puzzle URL codecs round-trip and agree with the puzz.link / pzv format.

Per module a Hypothesis generator of problems in the module's own format; oracles: (1) the
module's own decode(encode(p)) == p with dimensions; (2) URL shape name/width/height, split
without cspuz' regular expression; (3) the body read by the independent vlib.pzpr_ref equals
the problem; (4) legacy helper encoders vs combinator codecs give identical text.
"""

import json
import os

from vlib import pzpr_ref
from vlib.harness import Failure, HarnessError, Stats, VERIF, hyp_search, pmap, repo_frame_sig

LEVEL = "exploration"

CODECS = ["nurikabe", "masyu", "slitherlink", "sudoku", "nurimisaki", "yajilin", "heyawake", "lits",
          "norinori", "compass", "star_battle", "aquarium", "legacy_array", "legacy_segmentation"]
URL_NAME = {"nurikabe": "nurikabe", "masyu": "masyu", "slitherlink": "slither", "sudoku": "sudoku",
            "nurimisaki": "nurimisaki", "yajilin": "yajilin", "heyawake": "heyawake", "lits": "lits",
            "norinori": "norinori", "compass": "compass", "star_battle": "starbattle",
            "aquarium": "aquarium"}


def canon_rooms(rooms):
    return sorted(sorted(tuple(c) for c in r) for r in rooms)


def to_rooms(data):
    return [[tuple(c) for c in r] for r in data]


def call(what, f, *a):
    try:
        return f(*a)
    except Exception as e:
        raise Failure("%s-raises|%s" % (what, repo_frame_sig(e)),
                      observed="%s: %s" % (type(e).__name__, str(e)[:120]))


def scramble(obj):
    """change a decoded problem in place the way a caller might (edit a cell, drop a room's cell)"""
    if isinstance(obj, list):
        for x in obj:
            scramble(x)
        if obj and not isinstance(obj[0], (list, tuple)):
            obj[0] = "edited"
        obj.append("appended")
    elif isinstance(obj, tuple):
        for x in obj:
            scramble(x)


def decode_twice(codec, de, url):
    """decode, let the caller edit what it got, decode the same URL again: the second result must be the
    problem the URL encodes, not the caller's edited object"""
    import copy

    first = call("deserialize", de, url)
    keep = copy.deepcopy(first)
    scramble(first)
    second = call("deserialize", de, url)
    if second != keep:
        raise Failure("decoded-problem-shared-between-calls|" + codec, observed=dict(url=url[:120], second=second),
                      expected=keep)
    return keep


def check_shape(codec, url, rows, cols):
    try:
        name, c, r, parts = pzpr_ref.split_url(url)
    except pzpr_ref.FormatError as e:
        raise Failure("url-shape|" + codec, observed=url[:80], expected=str(e))
    if name != URL_NAME[codec] or c != cols or r != rows:
        raise Failure("url-header-wrong|" + codec, observed=[name, c, r],
                      expected=[URL_NAME[codec], cols, rows])


def check_ref(codec, url, expected):
    try:
        name, rows, cols, prob = pzpr_ref.read(url)
    except pzpr_ref.FormatError as e:
        raise Failure("body-not-pzpr-readable|" + codec, observed=dict(url=url[:120], error=str(e)))
    if prob != expected:
        raise Failure("body-reads-back-differently|" + codec, observed=dict(url=url[:120], read=prob),
                      expected=expected)


def body(case):
    codec = case["codec"]
    p = case["problem"]
    if codec in ("nurikabe", "masyu", "slitherlink", "sudoku", "nurimisaki", "yajilin"):
        import importlib
        mod = importlib.import_module("cspuz.puzzle." + codec)
        ser = getattr(mod, "serialize_" + codec)
        de = getattr(mod, "deserialize_" + codec)
        rows, cols = len(p), len(p[0])
        url = call("serialize", ser, [list(r) for r in p])
        check_shape(codec, url, rows, cols)
        back = decode_twice(codec, de, url)
        if back != p:
            raise Failure("round-trip-differs|" + codec, observed=dict(url=url[:120], back=back), expected=p)
        check_ref(codec, url, p)
        return url
    if codec in ("lits", "norinori"):
        import importlib
        mod = importlib.import_module("cspuz.puzzle." + codec)
        rows, cols = case["rows"], case["cols"]
        rooms = to_rooms(p)
        url = call("serialize", getattr(mod, "serialize_" + codec), rows, cols, rooms)
        check_shape(codec, url, rows, cols)
        back = decode_twice(codec, getattr(mod, "deserialize_" + codec), url)
        want = (rows, cols, canon_rooms(rooms))
        if back is None or (back[0], back[1], canon_rooms(back[2])) != want or \
                [sorted(r) for r in back[2]] != [list(r) for r in back[2]]:
            raise Failure("round-trip-differs|" + codec, observed=dict(url=url[:120], back=back),
                          expected=list(want))
        check_ref(codec, url, [list(r) for r in canon_rooms(rooms)])
        return url
    if codec == "heyawake":
        from cspuz.puzzle import heyawake
        rows, cols = case["rows"], case["cols"]
        if case.get("rect"):
            rect = [tuple(r) for r in p]
            url = call("serialize", heyawake.serialize_heyawake, rows, cols, rect)
            rooms, clues = heyawake.convert_from_rectangular_repr(rect)
        else:
            rooms, clues = to_rooms(p[0]), list(p[1])
            url = call("serialize", heyawake.serialize_heyawake, rows, cols, rooms, clues)
        check_shape(codec, url, rows, cols)
        back = decode_twice(codec, heyawake.deserialize_heyawake, url)
        pairs = sorted((sorted(r), c) for r, c in zip(rooms, clues))
        want = (rows, cols, ([r for r, _ in pairs], [c for _, c in pairs]))
        if back is None or (back[0], back[1], ([sorted(r) for r in back[2][0]], list(back[2][1]))) != want:
            raise Failure("round-trip-differs|heyawake", observed=dict(url=url[:120], back=back),
                          expected=list(want))
        check_ref(codec, url, ([list(r) for r in want[2][0]], want[2][1]))
        return url
    if codec == "compass":
        from cspuz.puzzle import compass
        rows, cols = case["rows"], case["cols"]
        pos = [tuple(c) for c in p]
        url = call("serialize", compass.to_puzz_link_url, rows, cols, pos)
        check_shape(codec, url, rows, cols)
        back = decode_twice(codec, compass.parse_puzz_link_url, url)
        if (back[0], back[1]) != (rows, cols):
            raise Failure("round-trip-dimensions|compass", observed=[back[0], back[1]], expected=[rows, cols])
        if sorted(back[2]) != sorted(pos):
            raise Failure("round-trip-differs|compass", observed=dict(url=url, back=back[2]), expected=sorted(pos))
        check_ref(codec, url, sorted(pos))
        return url
    if codec == "star_battle":
        from cspuz.puzzle import star_battle
        n, k, ids = case["n"], case["k"], p
        url = call("serialize", star_battle.problem_to_pzv_url, n, k, ids)
        check_shape(codec, url, n, n)
        blocks = {}
        for y in range(n):
            for x in range(n):
                blocks.setdefault(ids[y][x], []).append((y, x))
        check_ref(codec, url, (k, [list(r) for r in canon_rooms(blocks.values())]))
        return url
    if codec == "aquarium":
        from cspuz.puzzle import aquarium
        rows, cols = case["rows"], case["cols"]
        rooms = to_rooms(p[0])
        url = call("serialize", aquarium.problem_to_url, rows, cols, rooms, list(p[1]), list(p[2]))
        check_shape(codec, url, rows, cols)
        check_ref(codec, url, ([list(r) for r in canon_rooms(rooms)], list(p[1]), list(p[2])))
        return url
    if codec == "legacy_array":
        from cspuz import problem_serializer as ps
        from cspuz.puzzle import util
        e = case["empty"]
        rows, cols = len(p), len(p[0])
        legacy = call("legacy-encode", util.encode_array, [list(r) for r in p], "g", e)
        comb = call("serialize", lambda: ps.serialize_problem(
            ps.Grid(ps.OneOf(ps.Spaces(e, "g"), ps.HexInt())), [list(r) for r in p], height=rows, width=cols))
        if legacy != comb:
            raise Failure("legacy-encode_array-differs-from-combinator", observed=legacy, expected=comb)
        return legacy
    if codec == "legacy_segmentation":
        from cspuz import problem_serializer as ps
        from cspuz.puzzle import util
        rows, cols = case["rows"], case["cols"]
        rooms = to_rooms(p)
        ids = call("legacy", util.blocks_to_block_id, rows, cols, rooms)
        legacy = call("legacy-encode", util.encode_grid_segmentation, rows, cols, ids)
        comb = call("serialize", lambda: ps.serialize_problem(ps.Rooms(), rooms, height=rows, width=cols))
        if legacy != comb:
            raise Failure("legacy-encode_grid_segmentation-differs-from-Rooms", observed=legacy, expected=comb)
        return legacy
    raise ValueError(codec)


# ------------------------------------------------------------------ generators
def strategies():
    from hypothesis import strategies as st

    dims = st.one_of(st.integers(1, 12), st.integers(1, 6), st.sampled_from([1, 2, 24, 30]))

    def grid_of(cell, h=None, w=None):
        @st.composite
        def g(draw):
            hh = h or draw(dims)
            ww = w or draw(dims)
            if hh * ww > 400:
                ww = max(1, 400 // hh)
            mode = draw(st.integers(0, 2))
            rows = []
            for _ in range(hh):
                row = []
                while len(row) < ww:
                    if mode == 0 or draw(st.integers(0, 2)) == 0:
                        row.append(draw(cell))
                    else:
                        row += [draw(cell)] * draw(st.sampled_from([1, 2, 5, 19, 20, 21, 26, 27, 45]))
                rows.append(row[:ww])
            return rows
        return g()

    @st.composite
    def rooms(draw, h, w):
        """random spanning tree minus some edges: every connected partition is reachable"""
        cells = [(y, x) for y in range(h) for x in range(w)]
        edges = []
        for (y, x) in cells:
            if x + 1 < w:
                edges.append(((y, x), (y, x + 1)))
            if y + 1 < h:
                edges.append(((y, x), (y + 1, x)))
        parent = {c: c for c in cells}

        def find(c):
            while parent[c] != c:
                parent[c] = parent[parent[c]]
                c = parent[c]
            return c

        tree = []
        if edges:
            for i in draw(st.permutations(list(range(len(edges))))):
                a, b = edges[i]
                ra, rb = find(a), find(b)
                if ra != rb:
                    parent[ra] = rb
                    tree.append((a, b))
        n_cut = draw(st.integers(0, len(tree))) if tree else 0
        if tree and draw(st.booleans()):
            n_cut = min(n_cut, 4)
        parent = {c: c for c in cells}
        for a, b in tree[n_cut:]:
            parent[find(a)] = find(b)
        groups = {}
        for c in cells:
            groups.setdefault(find(c), []).append(c)
        ids = {r: i for i, r in enumerate(groups)}
        rid = [[ids[find((y, x))] for x in range(w)] for y in range(h)]
        out = [[list(c) for c in g] for g in groups.values()]
        if draw(st.booleans()):
            out = [list(draw(st.permutations(r))) for r in out]
            out = list(draw(st.permutations(out)))
        return out, rid

    big = st.one_of(st.integers(1, 15), st.integers(16, 255), st.integers(256, 300),
                    st.sampled_from([15, 16, 255, 256]))

    @st.composite
    def case(draw, codec=None):
        codec = codec or draw(st.sampled_from(CODECS))
        if codec == "nurikabe":
            cell = st.one_of(st.just(0), st.just(0), st.just(-1), big)
            return dict(codec=codec, problem=draw(grid_of(cell)))
        if codec == "masyu":
            return dict(codec=codec, problem=draw(grid_of(st.sampled_from([0, 0, 1, 2]))))
        if codec == "slitherlink":
            return dict(codec=codec, problem=draw(grid_of(st.sampled_from([-1, -1, -1, 0, 1, 2, 3, 4]))))
        if codec == "sudoku":
            n = draw(st.sampled_from([4, 9, 16, 25]))
            return dict(codec=codec, problem=draw(grid_of(st.one_of(st.just(0), st.integers(0, n)), n, n)))
        if codec == "nurimisaki":
            cell = st.one_of(st.just(-1), st.just(-1), st.just(0), st.integers(2, 40))
            return dict(codec=codec, problem=draw(grid_of(cell)))
        if codec == "yajilin":
            clue = st.builds(lambda d, n: d + str(n), st.sampled_from("^v<>"),
                             st.one_of(st.integers(0, 9), st.integers(0, 20), st.sampled_from([15, 16])))
            cell = st.one_of(st.just(".."), st.just(".."), st.just("??"), clue)
            return dict(codec=codec, problem=draw(grid_of(cell)))
        h = draw(dims)
        w = draw(dims)
        if h * w > 144:
            w = max(1, 144 // h)
        if codec in ("lits", "norinori", "legacy_segmentation"):
            return dict(codec=codec, rows=h, cols=w, problem=draw(rooms(h, w))[0])
        if codec == "heyawake":
            if draw(st.integers(0, 3)) == 0:
                # rectangular representation: horizontal bands cut into rectangles
                rect = []
                y0 = 0
                while y0 < h:
                    y1 = min(h, y0 + draw(st.integers(1, 3)))
                    x0 = 0
                    while x0 < w:
                        x1 = min(w, x0 + draw(st.integers(1, 4)))
                        rect.append([y0, x0, y1, x1, draw(st.one_of(st.just(-1), st.integers(0, 6)))])
                        x0 = x1
                    y0 = y1
                return dict(codec=codec, rows=h, cols=w, rect=True, problem=rect)
            rs = draw(rooms(h, w))[0]
            clues = [draw(st.one_of(st.just(-1), st.just(-1), st.integers(0, 9), big)) for _ in rs]
            return dict(codec=codec, rows=h, cols=w, problem=[rs, clues])
        if codec == "compass":
            cells = draw(st.lists(st.tuples(st.integers(0, h - 1), st.integers(0, w - 1)), max_size=8,
                                  unique=True))
            num = st.one_of(st.just(-1), st.integers(0, 15), st.integers(0, 255))
            pos = [[y, x, draw(num), draw(num), draw(num), draw(num)] for y, x in cells]
            return dict(codec=codec, rows=h, cols=w, problem=pos)
        if codec == "star_battle":
            n = draw(st.integers(1, 10))
            _, rid = draw(rooms(n, n))
            return dict(codec=codec, n=n, k=draw(st.integers(1, 3)), problem=rid)
        if codec == "aquarium":
            rs = draw(rooms(h, w))[0]
            cr = [draw(st.one_of(st.just(-1), st.integers(0, w))) for _ in range(h)]
            cc = [draw(st.one_of(st.just(-1), st.integers(0, h))) for _ in range(w)]
            return dict(codec=codec, rows=h, cols=w, problem=[rs, cr, cc])
        if codec == "legacy_array":
            e = draw(st.sampled_from([-1, 0]))
            cell = st.one_of(st.just(e), st.just(e), big, st.integers(1, 15))
            return dict(codec=codec, empty=e, problem=draw(grid_of(cell)))
        raise AssertionError(codec)

    return case


def classify(case, url):
    codec = case["codec"]
    cl = ["codec:" + codec]
    p = case["problem"]
    if codec == "star_battle":
        rows = cols = case["n"]
    elif "rows" in case:
        rows, cols = case["rows"], case["cols"]
    else:
        rows, cols = len(p), len(p[0])
    nonsq = rows != cols
    if nonsq:
        cl.append("non-square")
    s = json.dumps(p)
    prefix = any(isinstance(v, int) and v >= 16 for v in _flat(p))
    if prefix:
        cl.append("value-needs-prefix")
    longrun = url is not None and ("z" in url.split("/")[-1])
    if longrun:
        cl.append("run>=20")
    if rows == 1 or cols == 1:
        cl.append("single-row-or-column")
    return cl, nonsq or prefix or longrun or ("??" in s)


def _flat(v):
    if isinstance(v, list):
        for x in v:
            yield from _flat(x)
    else:
        yield v


def self_check():
    """pzpr_ref against the literal URLs of the repository (expected problems stored in corpus/)"""
    path = os.path.join(VERIF, "corpus", "literal_urls.json")
    data = json.load(open(path))
    for e in data:
        name, rows, cols, prob = pzpr_ref.read(e["url"])
        if json.loads(json.dumps(prob)) != e["problem"] or rows != e["rows"] or cols != e["cols"]:
            raise HarnessError("pzpr_ref self-check failed on " + e["url"])
    return len(data)


def shard(arg):
    seed, n, codecs = arg
    st = Stats()
    mk = strategies()
    for codec in codecs:
        def b(case):
            try:
                url = body(case)
            except Failure:
                cl, nt = classify(case, None)
                st.case(canon=case, nontrivial=nt, classes=cl)
                raise
            cl, nt = classify(case, url)
            st.case(canon=case, nontrivial=nt, classes=cl, sample=dict(case, url=url) if nt else None)

        hyp_search(st, mk(codec), b, seed=seed, max_examples=n, check="c16." + codec, rounds=5)
    return st


def run(ctx):
    ctx.rule = (
        "per codec (nurikabe, masyu, slitherlink, sudoku, nurimisaki, yajilin, heyawake incl. rectangular "
        "form, lits, norinori, compass, star_battle, aquarium, legacy encode_array vs Grid(OneOf(Spaces, "
        "HexInt)), legacy encode_grid_segmentation vs Rooms) Hypothesis-generated problems on boards 1..12 "
        "(some 24/30) per side, square and not, with long empty runs, values 15/16/255/256/300, rooms and "
        "cells in any order; oracles: own round trip, URL header split independently, body read by "
        "vlib.pzpr_ref, legacy == combinator text. non-trivial = non-square board, a value needing a "
        "prefix, a run > 20 or a '??' clue; distinct by case hash")
    n_self = self_check()
    ctx.assumptions = [
        "vlib.pzpr_ref implements DESIGN.md Appendix B; validated at start-up against %d literal URLs of the "
        "repository; the aquarium and starbattle layouts have no literal URL to validate against" % n_self,
        "compass problems are compared as sets of clue cells; heyawake / lits / norinori up to the canonical "
        "order of rooms and cells",
    ]
    quick = ctx.quick()
    n = 200 if quick else 5000
    k = 28 if quick else 16
    jobs = []
    for i in range(k):
        cod = [CODECS[i % len(CODECS)]] if quick else CODECS
        jobs.append((ctx.seed * 1000 + i, n if not quick else n * 2, cod))
    for r in pmap(shard, jobs):
        ctx.stats.merge(r)
    cl = ctx.stats.classes
    tot = max(1, ctx.stats.evaluations)
    ctx.floor("non-square boards (share)", round(cl["non-square"] / tot, 3), 0.40)
    for c in CODECS:
        ctx.floor("cases for " + c, cl["codec:" + c], 100)


def replay(ctx, rep):
    body(rep["case"])
