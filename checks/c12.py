"""C12 - array operators and aggregate helpers have pointwise / mathematical meaning.

Oracle: every element of the result is read through refsem and evaluated under generated
assignments; it must equal the Python operator applied to the evaluated operands in the
written order.  Ill-typed / ill-shaped uses must raise (any exception); returning a value
(the NotImplemented singleton included) is a failure.
"""

import itertools

from vlib import gen_expr as G
from vlib import refsem
from vlib.harness import blame, Failure, Stats, hyp_search, pmap, repo_frame_sig

LEVEL = "exploration"

INT_ARITH = ["add", "sub"]
INT_CMP = ["eq", "ne", "lt", "le", "gt", "ge"]
BOOL_BIN = ["and", "or", "xor", "iff", "neq", "then"]
PYOP = {
    "add": lambda a, b: a + b, "sub": lambda a, b: a - b,
    "eq": lambda a, b: a == b, "ne": lambda a, b: a != b, "lt": lambda a, b: a < b,
    "le": lambda a, b: a <= b, "gt": lambda a, b: a > b, "ge": lambda a, b: a >= b,
    "and": lambda a, b: a and b, "or": lambda a, b: a or b, "xor": lambda a, b: a != b,
    "iff": lambda a, b: a == b, "neq": lambda a, b: a != b, "then": lambda a, b: (not a) or b,
}


def val_of(salt, vid, is_bool):
    h = (salt * 2654435761 + (vid + 1) * 40503 + 12345) & 0xFFFFFFFF
    h ^= h >> 13
    h = (h * 0x5BD1E995) & 0xFFFFFFFF
    h ^= h >> 15
    return bool(h & 1) if is_bool else (h % 7) - 3


class World:
    """fresh solver with a pool of scalar variables for recipes"""

    def __init__(self):
        from cspuz import Solver

        self.s = Solver()
        self.V = G.Vars()
        self.V.b = [self.s.bool_var() for _ in range(3)]
        self.V.i = [self.s.int_var(-3, 3) for _ in range(3)]

    def assignment(self, salt):
        from cspuz.expr import BoolVar

        return {v.id: val_of(salt, v.id, isinstance(v, BoolVar)) for v in self.s.variables}

    def array(self, sort, shape, src):
        from cspuz.array import BoolArray1D, BoolArray2D, IntArray1D, IntArray2D

        shp = shape[0] if len(shape) == 1 else tuple(shape)
        base = self.s.bool_array(shp) if sort == "b" else self.s.int_array(shp, -3, 3)
        if src == "vars":
            return base
        # expression arrays: every element is a proper expression over the fresh variables
        if sort == "b":
            data = [~x if k % 2 else (x | self.V.b[k % 3]) for k, x in enumerate(base.data)]
            return BoolArray1D(data) if len(shape) == 1 else BoolArray2D(data, tuple(shape))
        data = [-x if k % 2 else (x + self.V.i[k % 3]) for k, x in enumerate(base.data)]
        return IntArray1D(data) if len(shape) == 1 else IntArray2D(data, tuple(shape))


def elems(x):
    """operand -> (list of element expressions or None for scalars, shape)"""
    from cspuz.array import Array1D, Array2D

    if isinstance(x, (Array1D, Array2D)):
        return list(x.data), tuple(x.shape)
    return None, None


def evalx(e, asg):
    return refsem.ev(refsem.from_cspuz(e), asg)


def build_operand(w, d, shape):
    t = d[0]
    if t == "A":
        return w.array(d[1], shape, d[2])
    if t == "A2":
        return w.array(d[1], d[2], "vars")
    if t == "s":
        return G.build(d[1], w.V)
    if t == "l":
        return d[1]
    raise ValueError(d)


def sort_of(d):
    if d[0] in ("A", "A2"):
        return d[1]
    if d[0] == "l":
        return "b" if isinstance(d[1], bool) else "i"
    return d[2]  # ["s", recipe, sort]


def apply_op(op, style, xs):
    import cspuz
    from cspuz import constraints as C

    a = xs[0]
    if op == "neg":
        return -a
    if op == "invert":
        return ~a
    if op == "add":
        return a + xs[1]
    if op == "sub":
        return a - xs[1]
    if op == "eq" or op == "iff":
        return a == xs[1]
    if op == "ne" or op == "neq":
        return a != xs[1]
    if op == "lt":
        return a < xs[1]
    if op == "le":
        return a <= xs[1]
    if op == "gt":
        return a > xs[1]
    if op == "ge":
        return a >= xs[1]
    if op == "and":
        return a & xs[1]
    if op == "or":
        return a | xs[1]
    if op == "xor":
        return a ^ xs[1]
    if op == "then":
        if style == "function" or isinstance(a, (bool, int)):
            return C.then(a, xs[1])
        return a.then(xs[1])
    if op == "cond":
        if style == "function" or isinstance(a, (bool, int)):
            return cspuz.cond(a, xs[1], xs[2])
        return a.cond(xs[1], xs[2])
    raise ValueError(op)


def required_sorts(op):
    if op in INT_ARITH or op in ("lt", "le", "gt", "ge", "eq", "ne"):
        return ["i", "i"]
    if op == "neg":
        return ["i"]
    if op == "invert":
        return ["b"]
    if op == "cond":
        return ["b", "i", "i"]
    return ["b", "b"]


def result_sort(op):
    return "i" if op in ("add", "sub", "neg", "cond") else "b"


def check_elementwise(case):
    from cspuz.array import (Array1D, Array2D, BoolArray1D, BoolArray2D, IntArray1D,
                             IntArray2D)
    from cspuz.expr import BoolExpr, IntExpr

    w = World()
    shape = case["shape"]
    op = case["op"]
    ds = case["operands"]
    xs = [build_operand(w, d, shape) for d in ds]
    ill = case["ill"]
    try:
        res = apply_op(op, case["style"], xs)
    except Exception as e:
        if ill is None:
            raise Failure("well-formed-use-raises|%s|%s" % (op, type(e).__name__),
                          observed="%s: %s" % (type(e).__name__, str(e)[:150]))
        return "rejected"
    if ill is not None:
        kind = "NotImplemented" if res is NotImplemented else type(res).__name__
        raise Failure("ill-%s-use-not-rejected|%s|%s" % (ill.split(":")[0], op, case["style"]),
                      observed="returned " + kind, expected="an exception")
    if res is NotImplemented:
        raise Failure("returns-NotImplemented|" + op, observed="NotImplemented")
    has_array = any(d[0] == "A" for d in ds)
    rs = result_sort(op)
    if has_array:
        want_t = {("b", 1): BoolArray1D, ("b", 2): BoolArray2D, ("i", 1): IntArray1D,
                  ("i", 2): IntArray2D}[(rs, len(shape))]
        if type(res) is not want_t:
            raise Failure("result-type|" + op, observed=type(res).__name__, expected=want_t.__name__)
        if tuple(res.shape) != tuple(shape):
            raise Failure("result-shape|" + op, observed=list(res.shape), expected=list(shape))
        n = 1
        for k in shape:
            n *= k
        if len(res.data) != n:
            raise Failure("result-size|" + op, observed=len(res.data), expected=n)
        res_el = list(res.data)
    else:
        if isinstance(res, (bool, int)):
            res_el = [res]
        elif not isinstance(res, BoolExpr if rs == "b" else IntExpr):
            raise Failure("result-type|" + op, observed=type(res).__name__)
        else:
            res_el = [res]
    opel = [elems(x)[0] for x in xs]
    for salt in case["salts"]:
        asg = w.assignment(salt)
        for i, r in enumerate(res_el):
            vals = []
            for x, el in zip(xs, opel):
                vals.append(evalx(el[i] if el is not None else x, asg))
            if op == "neg":
                want = -vals[0]
            elif op == "invert":
                want = not vals[0]
            elif op == "cond":
                want = vals[1] if vals[0] else vals[2]
            else:
                want = PYOP[op](vals[0], vals[1])
            got = evalx(r, asg)
            if got != want or isinstance(got, bool) != isinstance(want, bool):
                raise Failure("wrong-element-value|%s|%s" % (op, case["form"]),
                              observed=dict(index=i, got=got), expected=dict(want=want, operands=vals))
    return "ok"


# ------------------------------------------------------------------ helpers
def build_nest(w, d, flat):
    """build a nested argument; appends the leaf expressions in iteration order to flat"""
    from cspuz.array import BoolArray1D, BoolArray2D, IntArray1D, IntArray2D

    t = d[0]
    if t in ("list", "tuple", "gen"):
        items = [build_nest(w, c, flat) for c in d[1]]
        if t == "list":
            return items
        if t == "tuple":
            return tuple(items)
        return (x for x in items)
    if t == "arr1":
        a = w.array(d[1], [d[2]], d[3])
        flat.extend(a.data)
        return a
    if t == "arr2":
        a = w.array(d[1], [d[2], d[3]], d[4])
        flat.extend(a.data)
        return a
    if t == "expr":
        e = G.build(d[1], w.V)
        flat.append(e)
        return e
    if t == "lit":
        flat.append(d[1])
        return d[1]
    raise ValueError(d)


def check_helper(case):
    import cspuz
    from cspuz.expr import BoolExpr, IntExpr

    w = World()
    flat = []
    args = [build_nest(w, d, flat) for d in case["args"]]
    h = case["helper"]
    try:
        res = getattr(cspuz, h)(*args)
    except Exception as e:
        raise Failure("helper-raises|%s|%s" % (h, type(e).__name__),
                      observed="%s: %s" % (type(e).__name__, str(e)[:150]))
    if h == "count_true":
        if not isinstance(res, IntExpr):
            raise Failure("helper-result-type|" + h, observed=type(res).__name__)
    elif not isinstance(res, BoolExpr):
        raise Failure("helper-result-type|" + h, observed=type(res).__name__)
    for salt in case["salts"]:
        asg = w.assignment(salt)
        vals = [evalx(x, asg) for x in flat]
        want = {"count_true": lambda: sum(1 for v in vals if v), "fold_or": lambda: any(vals),
                "fold_and": lambda: all(vals),
                "alldifferent": lambda: len(set(vals)) == len(vals)}[h]()
        got = evalx(res, asg)
        if got != want:
            raise Failure("helper-wrong-value|" + h, observed=got, expected=dict(want=want, items=vals))
    return "ok"


def check_array_method(case):
    """fold_and/fold_or/count_true/alldifferent as array methods, incl. empty arrays"""
    w = World()
    a = w.array(case["sort"], case["shape"], case["src"])
    m = case["method"]
    res = getattr(a, m)()
    for salt in case["salts"]:
        asg = w.assignment(salt)
        vals = [evalx(x, asg) for x in a.data]
        want = {"count_true": lambda: sum(1 for v in vals if v), "fold_or": lambda: any(vals),
                "fold_and": lambda: all(vals),
                "alldifferent": lambda: len(set(vals)) == len(vals)}[m]()
        got = evalx(res, asg)
        if got != want:
            raise Failure("array-method-wrong-value|" + m, observed=got, expected=want)
    return "ok"


def check_conv2d(case):
    from cspuz.array import BoolArray2D

    w = World()
    H, W = case["shape"]
    a = w.array("b", [H, W], case["src"])
    h, wd, op = case["h"], case["w"], case["op"]
    try:
        res = a.conv2d(h, wd, op)
    except Exception as e:
        raise Failure("conv2d-raises|" + type(e).__name__, observed=str(e)[:100])
    rh, rw = max(0, H - h + 1), max(0, W - wd + 1)
    if type(res) is not BoolArray2D or tuple(res.shape) != (rh, rw) or len(res.data) != rh * rw:
        raise Failure("conv2d-shape", observed=[type(res).__name__, list(res.shape)], expected=[rh, rw])
    for salt in case["salts"]:
        asg = w.assignment(salt)
        grid = [[evalx(a.data[y * W + x], asg) for x in range(W)] for y in range(H)]
        for y in range(rh):
            for x in range(rw):
                win = [grid[y + dy][x + dx] for dy in range(h) for dx in range(wd)]
                want = all(win) if op == "and" else any(win)
                got = evalx(res.data[y * rw + x], asg)
                if got != want:
                    raise Failure("conv2d-wrong-value|" + op, observed=dict(y=y, x=x, got=got),
                                  expected=want)
    return "ok"


def check_neighbors(case):
    w = World()
    H, W = case["shape"]
    a = w.array(case["sort"], [H, W], "vars")
    ids = [v.id for v in a.data]
    for y in range(H):
        for x in range(W):
            want = sorted((yy, xx) for yy, xx in [(y - 1, x), (y + 1, x), (y, x - 1), (y, x + 1)]
                          if 0 <= yy < H and 0 <= xx < W)
            for style in ("two", "tuple"):
                if style == "two":
                    nb = a.four_neighbors(y, x)
                    ni = a.four_neighbor_indices(y, x)
                else:
                    nb = a.four_neighbors((y, x))
                    ni = a.four_neighbor_indices((y, x))
                if sorted((tuple(p) for p in ni), key=repr) != sorted(want, key=repr):
                    raise Failure("four_neighbor_indices-wrong", observed=[list(p) for p in ni], expected=want)
                # the returned list belongs to the caller: changing it must not leak into later calls
                keep = list(ni)
                ni.append(("junk", "junk"))
                if ni:
                    ni.pop(0)
                again = a.four_neighbor_indices(y, x) if style == "two" else a.four_neighbor_indices((y, x))
                if list(again) != keep:
                    raise Failure("four_neighbor_indices-result-shared-between-calls", observed=list(again),
                                  expected=keep)
                ni = keep
                got = sorted(v.id for v in nb)
                if got != sorted(ids[yy * W + xx] for yy, xx in want):
                    raise Failure("four_neighbors-wrong", observed=got,
                                  expected=dict(cell=[y, x], shape=[H, W]))
                # same order in both accessors
                if [v.id for v in nb] != [ids[yy * W + xx] for yy, xx in ni]:
                    raise Failure("four_neighbors-order-differs-from-indices",
                                  observed=[v.id for v in nb])
    return "ok"


def body(case):
    g = case["group"]
    if g == "elementwise":
        return check_elementwise(case)
    if g == "helper":
        return check_helper(case)
    if g == "array_method":
        return check_array_method(case)
    if g == "conv2d":
        return check_conv2d(case)
    if g == "neighbors":
        return check_neighbors(case)
    raise ValueError(g)


# ------------------------------------------------------------------ generators
def case_strategy():
    from hypothesis import strategies as st

    S = G.strategies()
    salts = st.lists(st.integers(0, 10**6), min_size=3, max_size=3)
    shape1 = st.one_of(st.integers(1, 4), st.integers(0, 4)).map(lambda n: [n])
    shape2 = st.one_of(st.tuples(st.integers(1, 3), st.integers(1, 3)), st.tuples(st.integers(1, 3), st.integers(1, 3)),
                      st.tuples(st.integers(0, 3), st.integers(0, 3))).map(list)
    shapes = st.one_of(shape1, shape2, st.sampled_from([[1, 4], [4, 1], [2, 3], [1, 1]]))

    def scalar(sort):
        if sort == "b":
            return st.builds(lambda r: ["s", r, "b"], S["bool_recipe"](3, 3, 2)).filter(
                lambda d: not G.is_literal_only(d[1]))
        return st.builds(lambda r: ["s", r, "i"], S["int_recipe"](3, 3, 2)).filter(
            lambda d: not G.is_literal_only(d[1]))

    def lit(sort):
        return st.builds(lambda v: ["l", v], st.booleans() if sort == "b" else st.integers(-3, 3))

    def arr(sort):
        return st.builds(lambda src: ["A", sort, src], st.sampled_from(["vars", "exprs"]))

    def wrong_shape(shape, kind):
        if kind == "len":
            if len(shape) == 1:
                return [shape[0] + 1]
            return [shape[0], shape[1] + 1]
        if kind == "transpose":
            return [shape[1], shape[0]]
        if kind == "dim":
            if len(shape) == 1:
                return [1, shape[0]]
            return [shape[0] * shape[1]]
        raise ValueError(kind)

    @st.composite
    def elementwise(draw):
        shape = draw(shapes)
        op = draw(st.sampled_from(INT_ARITH * 2 + INT_CMP + BOOL_BIN + ["neg", "invert"] + ["cond"] * 4))
        req = required_sorts(op)
        style = "operator"
        if op in ("then", "cond"):
            style = draw(st.sampled_from(["method", "function"]))
        # which positions hold the array of the case's shape
        n = len(req)
        arr_pos = draw(st.lists(st.booleans(), min_size=n, max_size=n))
        ill_mode = draw(st.sampled_from([None] * 6 + ["type-array", "type-scalar", "shape"] * 1))
        scalar_only = not any(arr_pos)
        if scalar_only and ill_mode != "type-scalar":
            # scalar-only well-formed forms belong to C01; keep a few for the reflected literals
            arr_pos[draw(st.integers(0, n - 1))] = True
            scalar_only = False
        operands = []
        for k in range(n):
            if arr_pos[k]:
                operands.append(draw(arr(req[k])))
            else:
                operands.append(draw(st.one_of(scalar(req[k]), lit(req[k]))))
        ill = None
        if ill_mode == "type-array":
            ks = [k for k in range(n) if operands[k][0] == "A"]
            if ks and not (op in ("eq", "ne", "iff", "neq")):
                k = draw(st.sampled_from(ks))
                operands[k] = ["A", "b" if req[k] == "i" else "i", operands[k][2]]
                ill = "typed:array-of-wrong-sort"
        elif ill_mode == "type-scalar":
            if not (op in ("eq", "ne", "iff", "neq")):
                k = draw(st.integers(0, n - 1))
                operands[k] = draw(scalar("b" if req[k] == "i" else "i"))
                ill = "typed:scalar-of-wrong-sort"
        elif ill_mode == "shape":
            ks = [k for k in range(n) if operands[k][0] == "A"]
            if len(ks) >= 1 and n >= 2:
                kinds = ["len", "dim"] + (["transpose"] if len(shape) == 2 and shape[0] != shape[1] else [])
                kind = draw(st.sampled_from(kinds))
                ws = wrong_shape(shape, kind)
                if ws != shape:
                    k = draw(st.sampled_from(ks))
                    others = [j for j in range(n) if j != k]
                    j = draw(st.sampled_from(others))
                    if operands[j][0] != "A":
                        operands[j] = ["A", req[j], "vars"]
                    operands[k] = ["A2", req[k], ws]
                    ill = "shaped:" + kind
        form = "".join({"A": "A", "A2": "X", "s": "s", "l": "l"}[d[0]] for d in operands)
        return dict(group="elementwise", shape=shape, op=op, style=style, operands=operands,
                    ill=ill, form=form, salts=draw(salts))

    def nest(sort, depth):
        leaf = st.one_of(
            st.builds(lambda r: ["expr", r], (S["bool_recipe"] if sort == "b" else S["int_recipe"])(3, 3, 1)
                      ).filter(lambda d: not G.is_literal_only(d[1])),
            st.builds(lambda v: ["lit", v], st.booleans() if sort == "b" else st.integers(-3, 3)),
            st.builds(lambda n, src: ["arr1", sort, n, src], st.integers(0, 3),
                      st.sampled_from(["vars", "exprs"])),
            st.builds(lambda h, w_, src: ["arr2", sort, h, w_, src], st.integers(0, 2), st.integers(0, 2),
                      st.sampled_from(["vars", "exprs"])),
        )
        if depth <= 0:
            return leaf
        return st.one_of(leaf, st.builds(lambda k, c: [k, c], st.sampled_from(["list", "tuple", "gen"]),
                                         st.lists(nest(sort, depth - 1), max_size=3)))

    @st.composite
    def helper(draw):
        h = draw(st.sampled_from(["count_true", "fold_or", "fold_and", "alldifferent"]))
        sort = "i" if h == "alldifferent" else "b"
        args = draw(st.lists(nest(sort, 2), min_size=0, max_size=3))
        return dict(group="helper", helper=h, args=args, salts=draw(salts))

    @st.composite
    def array_method(draw):
        m = draw(st.sampled_from(["count_true", "fold_or", "fold_and", "alldifferent"]))
        return dict(group="array_method", method=m, sort="i" if m == "alldifferent" else "b",
                    shape=draw(shapes), src=draw(st.sampled_from(["vars", "exprs"])), salts=draw(salts))

    @st.composite
    def conv(draw):
        H = draw(st.integers(0, 3))
        W = draw(st.integers(0, 3))
        return dict(group="conv2d", shape=[H, W], h=draw(st.integers(1, H + 1)),
                    w=draw(st.integers(1, W + 1)), op=draw(st.sampled_from(["and", "or"])),
                    src=draw(st.sampled_from(["vars", "exprs"])), salts=draw(salts))

    return st.one_of(elementwise(), elementwise(), elementwise(), helper(), array_method(), conv())


def classify(case, outcome):
    g = case["group"]
    cl = ["group:" + g]
    nt = False
    if g == "elementwise":
        cl.append("op:" + case["op"])
        empty = 0 in case["shape"]
        if empty:
            cl.append("empty-shape")
        if case["ill"]:
            cl.append("ill-" + case["ill"].split(":")[0])
        ops = case["operands"]
        reflected = ops[0][0] in ("s", "l") and any(d[0] == "A" for d in ops[1:])
        if reflected:
            cl.append("reflected-form")
        if any(d[0] == "l" for d in ops):
            cl.append("literal-operand")
        nt = (not empty) and (case["op"] in ("sub", "lt", "le", "gt", "ge", "then", "cond") or reflected
                              or bool(case["ill"]))
    elif g == "helper":
        def depth(d):
            return 1 + max([depth(c) for c in d[1]] + [0]) if d[0] in ("list", "tuple", "gen") else 0
        dp = max([depth(d) for d in case["args"]] + [0])
        if dp >= 1:
            cl.append("nested-helper-arg")
        if not case["args"]:
            cl.append("helper-no-args")
        nt = dp >= 1
    elif g == "conv2d":
        nt = 0 not in case["shape"]
        if case["h"] > case["shape"][0] or case["w"] > case["shape"][1]:
            cl.append("conv-window-larger-than-array")
    elif g == "array_method":
        if 0 in case["shape"]:
            cl.append("empty-shape")
        nt = 0 not in case["shape"]
    return cl, nt


def shard(arg):
    seed, n = arg
    st = Stats()

    def b(case):
        try:
            out = body(case)
        except Failure:
            cl, nt = classify(case, None)
            st.case(canon=case, nontrivial=nt, classes=cl)
            raise
        cl, nt = classify(case, out)
        st.case(canon=case, nontrivial=nt, classes=cl, sample=case if nt else None)

    hyp_search(st, case_strategy(), b, seed=seed, max_examples=n, check="c12", rounds=8)
    return st


def neighbors_all(_):
    st = Stats()
    for H in range(1, 5):
        for W in range(1, 5):
            for sort in ("b", "i"):
                case = dict(group="neighbors", shape=[H, W], sort=sort)
                try:
                    check_neighbors(case)
                except Failure as f:
                    st.fail(f, case, "c12.neighbors")
                except Exception as e:
                    # raised by the library on a well-formed call (e.g. after an earlier result was changed by
                    # its caller): a failure of the code under test; my own exceptions stay harness errors
                    if blame(e) != "repo":
                        raise
                    st.fail(Failure("exception|" + repo_frame_sig(e), observed="%s: %s" % (type(e).__name__, str(e)[:160])),
                            case, "c12.neighbors")
                st.case(nontrivial=True, counted=True, classes=["group:neighbors"], sample=case)
    return st


def run(ctx):
    ctx.rule = (
        "Hypothesis-generated (operator, operand kinds, shape) cases over all operator forms of the four "
        "array classes (A op B, A op s, s op A, literals, unary, then/cond as method and as free "
        "function), incl. empty and 1xN shapes, ill-typed and ill-shaped operands; nested helper "
        "arguments; conv2d windows; four_neighbors on every cell of shapes <= 4x4. Elements are evaluated "
        "by the reference evaluator under 3 generated assignments. non-trivial = non-empty shape and "
        "(non-commutative operator or reflected form or ill-formed use) / nested helper argument; distinct "
        "by case hash")
    ctx.assumptions = [
        "== / != between a Boolean and an integer operand are outside the rejection claim",
        "a Python literal of the wrong sort in an array operator is observed, not asserted",
        "four_neighbors compared as a set of cells plus 'same order as four_neighbor_indices'",
    ]
    k, n = (16, 1000) if ctx.quick() else (16, 20000)
    for r in pmap(shard, [(ctx.seed * 1000 + i, n) for i in range(k)] ):
        ctx.stats.merge(r)
    ctx.stats.merge(neighbors_all(None))
    cl = ctx.stats.classes
    tot = max(1, cl["group:elementwise"])
    ctx.floor("empty shapes share (elementwise)", round(cl["empty-shape"] / tot, 3), 0.08)
    ctx.floor("ill-typed share (elementwise)", round(cl["ill-typed"] / tot, 3), 0.08)
    ctx.floor("ill-shaped share (elementwise)", round(cl["ill-shaped"] / tot, 3), 0.03)
    ctx.floor("reflected forms share (elementwise)", round(cl["reflected-form"] / tot, 3), 0.12)
    ctx.floor("nested helper args", cl["nested-helper-arg"], 60)


def replay(ctx, rep):
    body(rep["case"])
