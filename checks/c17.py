"""C17 - decoding arbitrary text never crashes and only yields re-encodable problems.

Generators: (a) mutational-structural: a valid URL from C16's generators (incl. large boards
with few rooms, odd dimensions, other hosts, p.html?) then 0..6 edits; (b) arbitrary text;
(c) thorough: atheris coverage-guided fuzzing of the same entry function.
Oracle (inside the target): the outcome is None, ValueError or a problem; any other exception
is a failure bucketed by (type, innermost cspuz frame).  A returned problem has the dimensions
stated in the URL, serializes, and decoding that canonical text returns an equal problem.
"""

import os
import subprocess
import sys

from checks import c16
from vlib import gen_comb as GC
from vlib.harness import Failure, Stats, VERIF, hyp_search, pmap, repo_frame_sig

LEVEL = "exploration"

GRID_CODECS = ["nurikabe", "masyu", "slitherlink", "sudoku", "nurimisaki", "yajilin"]
ROOM_CODECS = ["heyawake", "lits", "norinori"]
TARGETS = GRID_CODECS + ROOM_CODECS
MEM_CAP = 2 * 2 ** 30
TOKENS = {
    "number16": ["0", "1", "9", "a", "f", ".", "g", "h", "z", "-10", "-ff", "+100", "+fff", "-", "+", "-g", "--1"],
    "yajilin": ["0.", "00", "11", "1.", "2a", "3f", "41", "50a", "610", "9ff", "710", "8a0", "a", "b", "z", "5", "1"],
    "slitherlink": ["0", "4", "5", "9", "a", "e", "f", "g", "z", "."],
    "masyu": ["0", "1", "9", "q", "r", "z", "i"],
    "lits": ["0", "v", "g", "1", "u", "w", "z"],
    "norinori": ["0", "v", "g", "1", "u", "w", "z"],
    "heyawake": ["0", "v", "g", "1", "u", "-10", "z", "5", "."],
}
URL_ALPHABET = "0123456789abcdefghijklmnopqrstuvwxyz-+.%=_/?:"


def guarded(what, f, *a, **k):
    """-> ("value", v) | ("None",) | ("ValueError",); anything else is a Failure"""
    try:
        v = f(*a, **k)
    except ValueError:
        return ("ValueError",)
    except RecursionError as e:
        raise Failure("RecursionError@%s" % repo_frame_sig(e).split("@")[-1],
                      observed="RecursionError", detail=what)
    except Exception as e:
        raise Failure(repo_frame_sig(e), observed="%s: %s" % (type(e).__name__, str(e)[:100]), detail=what)
    if v is None:
        return ("None",)
    return ("value", v)


def url_dims(url):
    from cspuz import problem_serializer as ps

    info = ps.get_puzzle_info_from_url(url)
    return info  # (name, height, width) or None


def tiles(rooms, h, w):
    seen = set()
    for r in rooms:
        for c in r:
            if not (isinstance(c, tuple) and len(c) == 2 and 0 <= c[0] < h and 0 <= c[1] < w) or c in seen:
                return False
            seen.add(c)
    return len(seen) == h * w


def check_puzzle(codec, text):
    import importlib

    mod = importlib.import_module("cspuz.puzzle." + codec)
    de = getattr(mod, "deserialize_" + codec)
    ser = getattr(mod, "serialize_" + codec)
    out = guarded("deserialize_" + codec, de, text)
    if out[0] != "value":
        return out[0]
    prob = out[1]
    info = guarded("get_puzzle_info_from_url", url_dims, text)
    if info[0] != "value":
        raise Failure("problem-returned-but-url-has-no-info|" + codec, observed=text[:80])
    _, H, W = info[1]
    if codec in GRID_CODECS:
        if not (isinstance(prob, list) and len(prob) == H and all(isinstance(r, list) and len(r) == W for r in prob)):
            raise Failure("decoded-dimensions-differ|" + codec,
                          observed=[len(prob), sorted({len(r) for r in prob})[:3]] if isinstance(prob, list) else repr(prob)[:60],
                          expected=[H, W])
        again = guarded("serialize_" + codec, ser, prob)
        if again[0] != "value":
            raise Failure("decoded-problem-not-serializable|" + codec, observed=again[0], expected=prob if H * W < 30 else None)
        back = guarded("deserialize_" + codec, de, again[1])
        if back != ("value", prob):
            raise Failure("canonical-text-decodes-differently|" + codec,
                          observed=dict(canonical=again[1][:100], back=repr(back)[:100]))
    else:
        if not (isinstance(prob, tuple) and len(prob) == 3 and prob[0] == H and prob[1] == W):
            raise Failure("decoded-dimensions-differ|" + codec, observed=repr(prob)[:80], expected=[H, W])
        rooms = prob[2][0] if codec == "heyawake" else prob[2]
        if not tiles(rooms, H, W):
            raise Failure("decoded-rooms-do-not-tile-the-board|" + codec, observed=repr(rooms)[:100],
                          expected=[H, W])
        if codec == "heyawake":
            again = guarded("serialize_heyawake", ser, H, W, prob[2][0], prob[2][1])
        else:
            again = guarded("serialize_" + codec, ser, H, W, prob[2])
        if again[0] != "value":
            raise Failure("decoded-problem-not-serializable|" + codec, observed=again[0])
        back = guarded("deserialize_" + codec, de, again[1])
        if back != ("value", prob):
            raise Failure("canonical-text-decodes-differently|" + codec,
                          observed=dict(canonical=again[1][:100], back=repr(back)[:100]))
    return "problem"


def check_generic(case):
    """deserialize_problem_as_url / get_puzzle_info_from_url with generated options"""
    from cspuz import problem_serializer as ps
    import importlib

    text = case["text"]
    info = guarded("get_puzzle_info_from_url", ps.get_puzzle_info_from_url, text)
    if info[0] == "value":
        v = info[1]
        if not (isinstance(v, tuple) and len(v) == 3 and isinstance(v[0], str) and isinstance(v[1], int)
                and isinstance(v[2], int)):
            raise Failure("get_puzzle_info-shape", observed=repr(v)[:60])
    elif info[0] == "ValueError":
        pass
    codec = case["codec"]
    mod = importlib.import_module("cspuz.puzzle." + codec)
    comb = getattr(mod, codec.upper() + "_COMBINATOR")
    out = guarded("deserialize_problem_as_url", ps.deserialize_problem_as_url, comb, text,
                  allowed_puzzles=case["allowed"], allow_failure=case["allow_failure"],
                  return_size=case["return_size"])
    if out[0] == "value":
        if info[0] != "value":
            raise Failure("problem-returned-but-url-has-no-info|generic", observed=text[:80])
        _, H, W = info[1]
        if case["return_size"]:
            v = out[1]
            if not (isinstance(v, tuple) and len(v) == 3 and v[0] == H and v[1] == W):
                raise Failure("return_size-dimensions-differ", observed=repr(v)[:60], expected=[H, W])
        if case["allowed"] is not None:
            names = case["allowed"] if isinstance(case["allowed"], list) else [case["allowed"]]
            if info[1][0] not in names:
                raise Failure("unexpected-puzzle-name-accepted", observed=info[1][0], expected=names)
        return "problem"
    return out[0]


def check_term(case):
    from cspuz import problem_serializer as ps

    term = GC.build_term(case["term"])
    H, W = case["height"], case["width"]
    out = guarded("deserialize_problem", ps.deserialize_problem, term, case["text"], height=H, width=W)
    if out[0] != "value":
        return out[0]
    v = out[1]
    again = guarded("serialize_problem", ps.serialize_problem, term, v, height=H, width=W)
    if again[0] != "value":
        raise Failure("decoded-value-not-serializable|term:" + case["term"][0], observed=again[0],
                      expected=GC.from_py(v) if len(repr(v)) < 200 else None)
    back = guarded("deserialize_problem", ps.deserialize_problem, term, again[1], height=H, width=W)
    if back != ("value", v):
        if tupl_drops_surplus(case["term"], v, ps.CombinatorEnv(height=H, width=W)):
            # known finding (known_findings.json): Tupl.serialize ignores the items of an element that
            # the element's combinator does not consume, so a decoded value is re-encoded lossily
            raise Failure("tupl-element-surplus-items-dropped-on-serialize",
                          observed=dict(canonical=again[1][:80], back=repr(back)[:100]), expected=repr(v)[:100])
        raise Failure("canonical-text-decodes-differently|term:" + case["term"][0],
                      observed=dict(canonical=again[1][:80], back=repr(back)[:100]))
    return "problem"


def tupl_drops_surplus(t, v, env):
    """does serializing value v with term t silently drop items of some Tupl element?"""
    k = t[0]
    try:
        if k == "Tupl" and isinstance(v, tuple) and len(v) == len(t[1]):
            for et, part in zip(t[1], v):
                if et[0] in ("Tupl", "Seq", "Grid", "Rooms", "ValuedRooms"):
                    if isinstance(part, list) and part and tupl_drops_surplus(et, part[0], env):
                        return True
                    if isinstance(part, list) and len(part) > 1:
                        return True
                elif isinstance(part, list) and len(part) > 1:
                    res = GC.build_term(et).serialize(env, part, 0)
                    if res is not None and res[0] < len(part):
                        return True
        elif k in ("Seq",) and isinstance(v, list):
            return any(tupl_drops_surplus(t[1], x, env) for x in v if isinstance(x, tuple))
        elif k == "Grid" and isinstance(v, list):
            return any(tupl_drops_surplus(t[1], x, env) for r in v if isinstance(r, list) for x in r
                       if isinstance(x, tuple))
    except Exception:
        return False
    return False


def body(case):
    k = case["kind"]
    if k == "puzzle":
        return check_puzzle(case["codec"], case["text"])
    if k == "generic":
        return check_generic(case)
    return check_term(case)


# ------------------------------------------------------------------ generators
def apply_edits(text, edits):
    for e in edits:
        if not text:
            text = e.get("ch", "x")
            continue
        pos = e["pos"] % (len(text) + 1)
        op = e["op"]
        if op == "delete":
            text = text[:pos] + text[pos + 1:]
        elif op == "dup":
            text = text[:pos] + text[max(0, pos - e["len"]):pos] + text[pos:]
        elif op == "replace":
            text = text[:pos] + e["ch"] + text[pos + 1:]
        elif op == "insert":
            text = text[:pos] + e["ch"] + text[pos:]
        elif op == "truncate":
            text = text[:pos]
    return text


def strategies():
    from hypothesis import strategies as st

    mk = c16.strategies()
    edit = st.one_of(
        st.fixed_dictionaries(dict(op=st.sampled_from(["delete", "truncate"]), pos=st.integers(0, 400))),
        st.fixed_dictionaries(dict(op=st.just("dup"), pos=st.integers(0, 400), len=st.integers(1, 6))),
        st.fixed_dictionaries(dict(op=st.sampled_from(["replace", "insert"]), pos=st.integers(0, 400),
                                   ch=st.one_of(st.sampled_from(list(URL_ALPHABET)),
                                                st.sampled_from(list(URL_ALPHABET)),
                                                st.characters(blacklist_categories=["Cs"])))),
    )

    @st.composite
    def base_url(draw, codec):
        mode = draw(st.sampled_from([0, 0, 0, 0, 0, 6, 6, 7, 7, 7, 8, 9]))
        if mode <= 5:
            case = draw(mk(codec))
            try:
                return _encode(case)
            except Exception:
                return "https://puzz.link/p?%s/3/3/" % c16.URL_NAME[codec]
        name = draw(st.sampled_from([c16.URL_NAME[codec], c16.URL_NAME[codec], "mashu", "lits", "junk", ""]))
        dim = st.one_of(st.integers(0, 12).map(str), st.sampled_from(["0", "1", "00", "40", "60", "99999999999",
                                                                       "٣", "-1", "", "1e2", "٣٣"]))
        host = draw(st.sampled_from(["https://puzz.link/p?", "http://pzv.jp/p.html?", "https://x/p?", "puzz.link/p?",
                                     "https://puzz.link/q?", ""]))
        w, h = draw(dim), draw(dim)
        if mode == 6:
            # large board, all-zero / constant body of roughly the right length; also very tall or very wide
            # boards of 1-3 columns / rows, and one room that snakes through the whole board
            shape = draw(st.sampled_from(["square", "square", "thin", "thin", "snake"]))
            if shape == "thin":
                w = draw(st.sampled_from(["1", "2", "3"]))
                h = draw(st.sampled_from(["400", "1200", "2500"]))
                if draw(st.booleans()):
                    w, h = h, w
            elif shape == "snake":
                w = draw(st.sampled_from(["20", "50"]))
                h = draw(st.sampled_from(["20", "50"]))
            else:
                w = draw(st.sampled_from(["30", "40", "50", "64"]))
                h = draw(st.sampled_from(["30", "40", "50", "64"]))
            if shape != "square" and draw(st.integers(0, 3)) > 0:
                name = draw(st.sampled_from(["lits", "norinori", "heyawake"]))   # the codecs with a Rooms part
            W_, H_ = int(w), int(h)
            n = W_ * H_
            rooms_len = ((W_ - 1) * H_ + 4) // 5 + (W_ * (H_ - 1) + 4) // 5
            if shape == "snake":
                vertical = draw(st.booleans())
                bits = []
                for y in range(H_):          # borders between (y, x) and (y, x + 1)
                    for x in range(W_ - 1):
                        bits.append(1 if vertical and y != (H_ - 1 if x % 2 == 0 else 0) else 0)
                bits += [0] * (-len(bits) % 5)
                for y in range(H_ - 1):      # borders between (y, x) and (y + 1, x)
                    for x in range(W_):
                        bits.append(1 if not vertical and x != (W_ - 1 if y % 2 == 0 else 0) else 0)
                bits += [0] * (-len(bits) % 5)
                body_ = "".join("0123456789abcdefghijklmnopqrstuv"[int("".join(map(str, bits[i:i + 5])), 2)]
                                for i in range(0, len(bits), 5))
                return "%s%s/%s/%s/%s" % (host or "https://puzz.link/p?", name, w, h, body_)
            ch = draw(st.sampled_from(["0", "0", "v", "g", "z", "1"] if shape == "square" else ["0", "0", "0", "0", "v", "1"]))
            blen = draw(st.sampled_from([n // 5 * 2 + 30, n, n // 3 + 2, n // 20 + 1, rooms_len, rooms_len]))
            return "%s%s/%s/%s/%s" % (host or "https://puzz.link/p?", name, w, h, ch * blen)
        if mode == 7:
            # well-formed header with small (possibly zero) dimensions and a body made of the codec's tokens
            host = "https://puzz.link/p?"
            name = c16.URL_NAME[codec]
            w = str(draw(st.integers(0, 4)))
            h = str(draw(st.integers(0, 4)))
            toks = TOKENS.get(codec, TOKENS["number16"])
            item = st.one_of(st.sampled_from(toks), st.sampled_from(toks), st.sampled_from(toks),
                             st.sampled_from(toks), st.sampled_from(toks), st.sampled_from(list(URL_ALPHABET)))
            bodytxt = "".join(draw(st.lists(item, max_size=draw(st.sampled_from([3, 6, 12, 24])))))
            chop = draw(st.sampled_from([0, 0, 1, 1, 2]))  # a last token cut short
            if chop and len(bodytxt) > chop:
                bodytxt = bodytxt[:-chop]
            return "%s%s/%s/%s/%s" % (host, name, w, h, bodytxt)
        bodytxt = draw(st.text(alphabet=URL_ALPHABET, max_size=60))
        parts = [name, w, h, bodytxt][:draw(st.integers(1, 4))]
        return host + "/".join(parts)

    @st.composite
    def puzzle_case(draw):
        codec = draw(st.sampled_from(TARGETS))
        url = draw(base_url(codec))
        edits = draw(st.lists(edit, max_size=6))
        text = apply_edits(url, edits)
        return dict(kind="puzzle", codec=codec, text=text, edits=len(edits))

    @st.composite
    def generic_case(draw):
        codec = draw(st.sampled_from(GRID_CODECS + ["lits", "norinori", "heyawake"]))
        url = draw(base_url(codec))
        edits = draw(st.lists(edit, max_size=4))
        allowed = draw(st.sampled_from([None, c16.URL_NAME[codec], [c16.URL_NAME[codec], "mashu"], "other", []]))
        return dict(kind="generic", codec=codec, text=apply_edits(url, edits), edits=len(edits), allowed=allowed,
                    allow_failure=draw(st.booleans()), return_size=draw(st.booleans()))

    @st.composite
    def text_case(draw):
        codec = draw(st.sampled_from(TARGETS))
        return dict(kind="puzzle", codec=codec, text=draw(st.text(max_size=80)), edits=99)

    gc = GC.strategies()["case"]

    @st.composite
    def term_case(draw):
        base = draw(gc)
        from cspuz import problem_serializer as ps
        try:
            text = ps.serialize_problem(GC.build_term(base["term"]), GC.to_py(base["value"]),
                                        height=base["height"], width=base["width"])
        except Exception:
            text = ""
        mode = draw(st.integers(0, 3))
        if mode == 0:
            text = draw(st.text(alphabet=URL_ALPHABET, max_size=40))
        else:
            text = apply_edits(text, draw(st.lists(edit, min_size=1, max_size=5)))
        H, W = base["height"], base["width"]
        if draw(st.integers(0, 4)) == 0:
            H = draw(st.sampled_from([0, 1, -1, H + 1]))
        if draw(st.integers(0, 4)) == 0:
            W = draw(st.sampled_from([0, 1, -2, W + 1]))
        return dict(kind="term", term=base["term"], text=text, height=H, width=W, edits=1)

    return st.one_of(puzzle_case(), puzzle_case(), generic_case(), text_case(), term_case())


def _encode(case):
    """url for a C16 case (serializer only)"""
    import importlib

    codec = case["codec"]
    p = case["problem"]
    if codec in GRID_CODECS:
        mod = importlib.import_module("cspuz.puzzle." + codec)
        return getattr(mod, "serialize_" + codec)([list(r) for r in p])
    mod = importlib.import_module("cspuz.puzzle." + codec)
    if codec == "heyawake":
        if case.get("rect"):
            return mod.serialize_heyawake(case["rows"], case["cols"], [tuple(r) for r in p])
        return mod.serialize_heyawake(case["rows"], case["cols"], c16.to_rooms(p[0]), list(p[1]))
    return getattr(mod, "serialize_" + codec)(case["rows"], case["cols"], c16.to_rooms(p))


def shard(arg):
    seed, n = arg
    st = Stats()
    sys.setrecursionlimit(1000)
    # a decoder that allocates without bound on a short hostile input is a crash as well: cap the
    # address space of this worker so that it surfaces as MemoryError (bucketed like any exception)
    import resource
    resource.setrlimit(resource.RLIMIT_AS, (MEM_CAP, MEM_CAP))

    def b(case):
        try:
            out = body(case)
        except Failure:
            st.case(canon=case, nontrivial=True, classes=["failed"])
            raise
        cl = ["kind:" + case["kind"], "outcome:" + out]
        if case.get("codec"):
            cl.append("codec:" + case["codec"])
        nt = case.get("edits", 1) >= 1 and out in ("problem", "ValueError", "None")
        if case.get("edits", 0) >= 1 and out == "problem":
            cl.append("mutated-input-decodes")
        st.case(canon=case, nontrivial=nt, classes=cl,
                sample=dict(case, outcome=out) if nt and len(case["text"]) < 120 else None)

    hyp_search(st, strategies(), b, seed=seed, max_examples=n, check="c17", rounds=8)
    return st


def shard_exhaustive(codec):
    """small-scope exhaustion: every body of up to 3 (4) characters over the codec's own token
    characters on tiny boards, through the codec's deserialize_* function"""
    import itertools
    import resource

    resource.setrlimit(resource.RLIMIT_AS, (MEM_CAP, MEM_CAP))
    st = Stats()
    toks = TOKENS.get(codec, TOKENS["number16"])
    chars = sorted(set("".join(toks)))
    maxlen = 4 if len(chars) <= 9 else 3
    name = c16.URL_NAME[codec]
    for (w, h) in ((1, 1), (2, 1), (3, 1), (1, 3), (2, 2), (4, 1)):
        for n in range(0, maxlen + 1):
            for combo in itertools.product(chars, repeat=n):
                text = "https://puzz.link/p?%s/%d/%d/%s" % (name, w, h, "".join(combo))
                case = dict(kind="puzzle", codec=codec, text=text, edits=1)
                try:
                    out = check_puzzle(codec, text)
                except Failure as f:
                    st.fail(f, case, "c17.exhaustive")
                    out = "failed"
                st.case(nontrivial=True, counted=True, classes=["exhaustive-short-bodies", "outcome:" + out],
                        sample=case if out == "problem" and n >= 2 else None)
    return st


def run_atheris(ctx, seconds, workers):
    """thorough tier: coverage-guided campaign in subprocesses (tools/fuzz_c17.py); each worker writes
    its result file incrementally because libFuzzer ends the process itself"""
    import json
    import shutil
    import tempfile

    script = os.path.join(VERIF, "tools", "fuzz_c17.py")
    tmp = tempfile.mkdtemp(prefix="c17fuzz_", dir="/tmp")
    procs = []
    try:
        for i in range(workers):
            env = dict(os.environ, VERIF_SEED=str(ctx.seed * 100 + i + 1))
            out = os.path.join(tmp, "w%d.json" % i)
            procs.append((out, subprocess.Popen(
                [sys.executable, script, "--seconds", str(seconds), "--worker", str(i), "--out", out],
                env=env, stdout=subprocess.DEVNULL, stderr=subprocess.DEVNULL)))
        total = 0
        started = 0
        for out, p in procs:
            try:
                p.wait(timeout=seconds + 120)
            except subprocess.TimeoutExpired:
                p.kill()
            if os.path.exists(out):
                res = json.load(open(out))
                started += 1
                total += res.get("executions", 0)
                for sig, d in res.get("failures", {}).items():
                    ctx.stats.fail(Failure(sig, observed=d.get("observed")), d.get("case"), "c17.atheris")
        ctx.stats.extra["atheris_executions"] = total
        ctx.stats.extra["atheris_workers"] = started
        if started == 0:
            ctx.notes.append("atheris could not be started (tools/setup.py installs it into /verif/.deps)")
    finally:
        shutil.rmtree(tmp, ignore_errors=True)


def run(ctx):
    ctx.rule = (
        "Hypothesis mutational-structural inputs: a valid URL from the C16 generators (9 codecs) or a "
        "synthetic URL (large boards with a constant body, dimensions 0/1/huge/non-ASCII digits/empty, "
        "other hosts, missing segments) then 0..6 edits (delete, duplicate, replace/insert a URL-alphabet "
        "or arbitrary Unicode character, truncate); plain arbitrary text; deserialize_problem_as_url with "
        "generated allowed_puzzles/allow_failure/return_size; get_puzzle_info_from_url; "
        "deserialize_problem(term, text, height, width) for generated combinator terms with mutated texts "
        "and odd sizes; every body of <= 3 (4) characters over each codec's token characters on six tiny "
        "boards (exhaustive); thorough: plus an atheris campaign on the same entry function. non-trivial = input "
        "with >= 1 edit that reached a verdict (problem / None / ValueError); distinct by case hash")
    ctx.assumptions = ["compass.parse_puzz_link_url is not a deserialize_* function and is not named by the property",
                       "workers run under a 2 GiB address-space cap; MemoryError on inputs of < 500 characters counts as a crash",
                       "recursion limit left at Python's default 1000"]
    # seconds-long regression tier: the recorded input of every listed known finding
    for sig, e in sorted(ctx.known_open.items()):
        if "replay" in e:
            try:
                body(e["replay"])
            except Failure as f:
                ctx.stats.fail(f, e["replay"], "c17.known-finding-replay")
            ctx.stats.case(canon=e["replay"], nontrivial=True, classes=["known-finding-replay"])
    k, n = (8, 1500) if ctx.quick() else (16, 30000)
    for r in pmap(shard, [(ctx.seed * 1000 + i, n) for i in range(k)]):
        ctx.stats.merge(r)
    for r in pmap(shard_exhaustive, TARGETS):
        ctx.stats.merge(r)
    if not ctx.quick():
        run_atheris(ctx, 60, 16)
    cl = ctx.stats.classes
    tot = max(1, ctx.stats.evaluations)
    ctx.floor("inputs that decode to a problem (share)", round(cl["outcome:problem"] / tot, 3), 0.15)
    ctx.floor("mutated inputs that still decode", cl["mutated-input-decodes"], 200)
    ctx.floor("inputs rejected with None/ValueError (share)",
              round((cl["outcome:None"] + cl["outcome:ValueError"]) / tot, 3), 0.2)


def replay(ctx, rep):
    body(rep["case"])
