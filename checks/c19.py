"""C19 - problem generation is sound and reproducible under the deterministic PRNG.

(a) generate_problem soundness and purity over generated builder patterns and pure solver
    callbacks; (b) reproducibility of the candidate sequence for a seed across Python's global
    random state, backends and interpreters; (c) range and support of randint / choice /
    shuffle / random; (d) uniformity, statistically (chi-square over fixed seeds, p > 1e-9) and
    structurally (the raw 32-bit words of the PRNG are replaced by generated ones).
"""

import copy
import hashlib
import itertools
import json
import math
import os
import random
import subprocess
import sys

from checks import c18
from vlib import fakesolver
from vlib.harness import Failure, REPO, Stats, VERIF, hyp_search, pmap, repo_frame_sig

LEVEL = "exploration"


# ------------------------------------------------------------------ patterns (plain data)
# ["const", v] | ["choice", [values], default] | ["array", h, w, [values], default, {opts}]
# | ["seg", h, w, {bounds}] | ["list", [patterns]] | ["tuple", [patterns]]
def build_pattern(p):
    from cspuz.generator import ArrayBuilder2D, Choice, SegmentationBuilder2D

    k = p[0]
    if k == "const":
        return p[1]
    if k == "choice":
        return Choice(list(p[1]), p[2])
    if k == "array":
        o = dict(p[5])
        da = o.get("disallow_adjacent", False)
        if isinstance(da, list):
            da = [tuple(x) for x in da]
        init = o.get("initial")
        return ArrayBuilder2D(p[1], p[2], list(p[3]), p[4], disallow_adjacent=da,
                              symmetry=o.get("symmetry", False), use_move=o.get("use_move", False),
                              initial=copy.deepcopy(init) if init is not None else None)
    if k == "seg":
        return SegmentationBuilder2D(p[1], p[2], **{a: b for a, b in p[3].items() if b is not None})
    if k == "list":
        return [build_pattern(x) for x in p[1]]
    if k == "tuple":
        return tuple(build_pattern(x) for x in p[1])
    raise ValueError(p)


def builders(p, pos=()):
    """positions of the builders in a pattern descriptor"""
    k = p[0]
    if k in ("choice", "array", "seg"):
        yield pos, p
    elif k in ("list", "tuple"):
        for i, x in enumerate(p[1]):
            yield from builders(x, pos + (i,))


def get(v, pos):
    for i in pos:
        v = v[i]
    return v


def same_shape(p, a, where):
    """lists stay lists, tuples stay tuples, constants stay constants"""
    k = p[0]
    if k == "list" or k == "tuple":
        if not isinstance(a, list if k == "list" else tuple) or len(a) != len(p[1]):
            raise Failure("neighbour-container-type-changed|" + where, observed=type(a).__name__, expected=k)
        for x, y in zip(p[1], a):
            same_shape(x, y, where)
    elif k == "const":
        if a != p[1]:
            raise Failure("neighbour-changes-a-constant|" + where, observed=repr(a), expected=repr(p[1]))


def nd_cells(grid, default):
    return {(y, x) for y, row in enumerate(grid) for x, v in enumerate(row) if v != default}


def check_neighbour(pattern, cur, nb):
    same_shape(pattern, nb, "neighbour")
    changed = []
    for pos, b in builders(pattern):
        if get(cur, pos) != get(nb, pos):
            changed.append((pos, b))
    if len(changed) != 1:
        raise Failure("neighbour-differs-in-%s-builder-positions" % ("no" if not changed else "several"),
                      observed=len(changed), expected=1)
    pos, b = changed[0]
    old, new = get(cur, pos), get(nb, pos)
    if b[0] == "choice":
        if new not in b[1]:
            raise Failure("choice-value-outside-choice-set", observed=repr(new), expected=b[1])
    elif b[0] == "array":
        h, w, vals, default, o = b[1], b[2], b[3], b[4], b[5]
        if not (isinstance(new, list) and len(new) == h and all(isinstance(r, list) and len(r) == w for r in new)):
            raise Failure("array-shape-changed", observed=repr(new)[:80])
        became = []
        for y in range(h):
            for x in range(w):
                if new[y][x] != old[y][x]:
                    if new[y][x] not in vals:
                        raise Failure("array-cell-value-outside-choice-set", observed=repr(new[y][x]), expected=vals)
                    if old[y][x] == default:
                        became.append((y, x))
        if o.get("symmetry"):
            nd = nd_cells(new, default)
            if {(h - 1 - y, w - 1 - x) for y, x in nd} != nd:
                raise Failure("symmetry-broken|use_move=%s" % bool(o.get("use_move")),
                              observed=sorted(nd), expected="invariant under 180-degree rotation")
        da = o.get("disallow_adjacent", False)
        if da and not o.get("use_move"):
            offs = [(-1, 0), (1, 0), (0, -1), (0, 1)] if da is True else [tuple(x) for x in da]
            for y, x in became:
                for dy, dx in offs:
                    y2, x2 = y + dy, x + dx
                    if 0 <= y2 < h and 0 <= x2 < w and new[y2][x2] != default:
                        raise Failure("adjacency-broken|symmetry=%s" % bool(o.get("symmetry")),
                                      observed=dict(cell=[y, x], neighbour=[y2, x2]))
    else:
        hb, wb, bounds = b[1], b[2], b[3]
        eff = (bounds.get("min_num_blocks") or 1, bounds.get("max_num_blocks") or hb * wb,
               bounds.get("min_block_size") or 1, bounds.get("max_block_size") or hb * wb)
        c18.check_value(new, hb, wb, eff, "generate_problem-neighbour")


def token(obj, salt):
    s = json.dumps(obj, sort_keys=True, default=repr) + "|" + str(salt)
    return int.from_bytes(hashlib.blake2b(s.encode(), digest_size=8).digest(), "big")


def run_generation(case, record=None):
    """-> (result, list of solver-call problems).  Checks soundness / purity on the way."""
    from cspuz.generator import build_neighbor_generator, generate_problem
    from cspuz.generator import srandom

    srandom.use_deterministic_prng(True, seed=case["seed"])
    random.seed(case.get("pyseed", 0))
    pattern_d = case["pattern"]
    pattern = build_pattern(pattern_d)
    salt = case["salt"]
    calls = []      # (snapshot, is_sat, tok)
    pretested = []  # snapshots
    live = []       # (object, snapshot)
    currents = []

    def solver(problem):
        snap = copy.deepcopy(problem)
        live.append((problem, snap))
        t = token(snap, salt)
        is_sat = (t % 100) < case["sat_pct"]
        calls.append((snap, is_sat, t))
        return is_sat, t

    def uniq(t):
        return (t >> 8) % 100 < case["uniq_pct"]

    def score(t):
        return (t >> 16) % 50

    def pretest(problem):
        snap = copy.deepcopy(problem)
        live.append((problem, snap))
        pretested.append(snap)
        return (token(snap, salt + 1) % 100) < case["pretest_pct"]

    def penalty(problem):
        return token(problem, salt + 2) % 7

    try:
        initial, gen = build_neighbor_generator(pattern)
    except Exception as e:
        raise Failure("build_neighbor_generator-raises|" + repo_frame_sig(e), observed=str(e)[:100])
    initial_snap = copy.deepcopy(initial)

    def wrapped(problem):
        cur_snap = copy.deepcopy(problem)
        currents.append(cur_snap)
        live.append((problem, cur_snap))
        for nb in gen(problem):
            check_neighbour(pattern_d, cur_snap, nb)
            if problem != cur_snap:
                raise Failure("current-problem-mutated-while-generating-neighbours")
            yield nb

    kw = dict(initial_problem=initial, neighbor_generator=wrapped, uniqueness=uniq, score=score,
              max_steps=case["max_steps"], solve_initial_problem=case["solve_initial"])
    if case["use_pretest"]:
        kw["pretest"] = pretest
    if case["use_penalty"]:
        kw["clue_penalty"] = penalty
    try:
        res = generate_problem(solver, **kw)
    except Failure:
        raise
    except Exception as e:
        raise Failure("generate_problem-raises|" + repo_frame_sig(e), observed=str(e)[:120])
    finally:
        srandom.use_deterministic_prng(False)
    # soundness of the result
    start = 1 if case["solve_initial"] else 0
    accepted = [i for i, (snap, sat, t) in enumerate(calls) if i >= start and sat and uniq(t)]
    if res is None:
        if accepted:
            raise Failure("returns-None-although-a-candidate-was-accepted", observed=len(accepted))
    else:
        if not accepted:
            raise Failure("returns-a-problem-no-solver-call-accepted", observed=repr(res)[:100])
        if calls[accepted[0]][0] != res:
            raise Failure("returned-problem-is-not-the-first-accepted-candidate", observed=repr(res)[:100],
                          expected=repr(calls[accepted[0]][0])[:100])
        if len(calls) - 1 != accepted[0]:
            raise Failure("search-continued-after-an-accepted-candidate", observed=len(calls))
    # purity
    for obj, snap in live:
        if obj != snap:
            raise Failure("previously-produced-problem-mutated", observed=repr(obj)[:80], expected=repr(snap)[:80])
    if initial != initial_snap:
        raise Failure("initial-problem-mutated")
    return res, [c[0] for c in calls], currents


def check_soundness(case):
    res, calls, currents = run_generation(case)
    return dict(calls=len(calls), moves=len({json.dumps(c, default=repr) for c in currents}), res=res is not None)


def check_repro(case):
    a = run_generation(dict(case, pyseed=1))
    b = run_generation(dict(case, pyseed=987654))
    if a[1] != b[1] or a[0] != b[0]:
        k = next((i for i, (x, y) in enumerate(zip(a[1], b[1])) if x != y), min(len(a[1]), len(b[1])))
        has_seg = any(bd[0] == "seg" for _, bd in builders(case["pattern"]))
        raise Failure("candidate-sequence-depends-on-python-global-random" + ("|segmentation" if has_seg else ""),
                      observed=dict(first_difference_at_call=k), expected="identical sequences for one seed")
    c = run_generation(dict(case, seed=case["seed"] + 1, pyseed=1))
    return dict(calls=len(a[1]), differs_for_other_seed=(c[1] != a[1]))


# ------------------------------------------------------------------ real tiny model on two backends
def tiny_model_generation(seed, backend):
    from cspuz import Solver, count_true
    from cspuz.generator import ArrayBuilder2D, generate_problem, srandom

    seq = []

    def solve(problem):
        seq.append(copy.deepcopy(problem))
        s = Solver()
        x = s.bool_array((2, 3))
        s.add_answer_key(x)
        for y in range(2):
            for c in range(3):
                if problem[y][c] >= 0:
                    nb = [x[y2, c2] for y2 in range(2) for c2 in range(3) if abs(y2 - y) + abs(c2 - c) <= 1]
                    s.ensure(count_true(nb) == problem[y][c])
        if backend == "z3":
            ok = s.solve(backend="z3")
        else:
            with fakesolver.installed():
                ok = s.solve(backend="cspuz_core")
            del fakesolver.CALLS[:]
        return ok, x

    srandom.use_deterministic_prng(True, seed=seed)
    try:
        res = generate_problem(solve, builder_pattern=ArrayBuilder2D(2, 3, [-1, 0, 1, 2, 3], default=-1),
                               max_steps=6)
    finally:
        srandom.use_deterministic_prng(False)
    return res, seq


def check_backends(case):
    try:
        random.seed(5)
        a = tiny_model_generation(case["seed"], "z3")
        random.seed(77)
        b = tiny_model_generation(case["seed"], "cspuz_core")
    except Failure:
        raise
    except Exception as e:
        raise Failure("generate_problem-raises|" + repo_frame_sig(e), observed="%s: %s" % (type(e).__name__, str(e)[:120]))
    if a != b:
        raise Failure("candidate-sequence-depends-on-backend", observed=dict(z3=len(a[1]), cspuz_core=len(b[1])))
    return dict(calls=len(a[1]))


FRESH = r"""
import json, sys, random
sys.path.insert(0, sys.argv[1]); sys.path.insert(0, sys.argv[2])
from checks import c19
case = json.loads(sys.argv[3])
random.seed(int(sys.argv[4]))
res, calls, _ = c19.run_generation(dict(case, pyseed=int(sys.argv[4])))
print("SEQ " + json.dumps([res, calls], default=repr))
"""


def check_fresh(case):
    here = run_generation(dict(case, pyseed=3))
    p = subprocess.run([sys.executable, "-c", FRESH, REPO, VERIF, json.dumps(case), "424242"],
                       stdout=subprocess.PIPE, stderr=subprocess.PIPE, text=True,
                       env=dict(os.environ, PYTHONHASHSEED=str(1 + case["seed"] % 4000)))  # another hash seed
    line = [l for l in p.stdout.splitlines() if l.startswith("SEQ ")]
    if not line:
        raise Failure("fresh-interpreter-run-failed", observed=p.stderr[-300:])
    there = json.loads(line[0][4:])
    mine = json.loads(json.dumps([here[0], here[1]], default=repr))
    if there != mine:
        raise Failure("candidate-sequence-differs-in-a-fresh-interpreter")
    return dict(calls=len(here[1]))


# ------------------------------------------------------------------ (c) range and support
def check_range(case):
    from cspuz.generator import srandom

    a, b = case["a"], case["b"]
    srandom.use_deterministic_prng(True, seed=case["seed"])
    try:
        if a > b or b - a + 1 > 2 ** 32:
            try:
                v = srandom.randint(a, b)
            except ValueError:
                return dict(kind="invalid-range")
            except Exception as e:
                raise Failure("randint-invalid-range-raises-" + type(e).__name__)
            raise Failure("randint-accepts-invalid-range", observed=v, expected="ValueError")
        w = b - a + 1
        n = 64 * w if w <= 64 else 200
        seen = set()
        for _ in range(n):
            try:
                v = srandom.randint(a, b)
            except Exception as e:
                raise Failure("randint-raises|" + repo_frame_sig(e), observed=str(e)[:80])
            if not isinstance(v, int) or not a <= v <= b:
                raise Failure("randint-outside-[a,b]" + ("|a!=0" if a != 0 else ""), observed=v, expected=[a, b])
            seen.add(v)
        if w <= 64 and len(seen) != w:
            raise Failure("randint-value-never-drawn", observed=sorted(set(range(a, b + 1)) - seen)[:5],
                          expected="every value of [a,b] in 64*w draws")
        # choice / shuffle / random
        seq = case["seq"]
        if not seq:
            try:
                srandom.choice(seq)
            except ValueError:
                pass
            except Exception as e:
                raise Failure("choice-empty-raises-" + type(e).__name__)
            else:
                raise Failure("choice-accepts-empty-sequence")
        else:
            for _ in range(20):
                if srandom.choice(seq) not in seq:
                    raise Failure("choice-returns-a-non-element")
            if len(set(seq)) > 1 and len(seq) <= 8:
                got = {srandom.choice(seq) for _ in range(64 * len(seq))}
                if got != set(seq):
                    raise Failure("choice-never-returns-some-element", observed=sorted(set(seq) - got))
        s2 = list(seq)
        srandom.shuffle(s2)
        if sorted(s2) != sorted(seq):
            raise Failure("shuffle-not-a-permutation", observed=s2, expected=seq)
        for _ in range(50):
            r = srandom.random()
            if not (isinstance(r, float) and 0.0 <= r < 1.0):
                raise Failure("random-outside-[0,1)", observed=r)
    finally:
        srandom.use_deterministic_prng(False)
    return dict(kind="range", a_nonzero=a != 0)


# ------------------------------------------------------------------ (d) uniformity
def chi2_sf(x, k):
    """survival function of chi-square with k degrees of freedom (regularised upper gamma)"""
    from scipy.stats import chi2
    return float(chi2.sf(x, k))


def chi2_p(counts):
    n = sum(counts)
    e = n / len(counts)
    x = sum((c - e) ** 2 / e for c in counts)
    try:
        return chi2_sf(x, len(counts) - 1)
    except ImportError:
        # Wilson-Hilferty normal approximation
        k = len(counts) - 1
        z = ((x / k) ** (1 / 3) - (1 - 2 / (9 * k))) / math.sqrt(2 / (9 * k))
        return 0.5 * math.erfc(z / math.sqrt(2))


def check_statistical(case):
    from cspuz.generator import srandom

    srandom.use_deterministic_prng(True, seed=case["seed"])
    try:
        a, w = case["a"], case["w"]
        N = 400 * w
        cnt = {}
        for _ in range(N):
            v = srandom.randint(a, a + w - 1)
            cnt[v] = cnt.get(v, 0) + 1
        counts = [cnt.get(a + i, 0) for i in range(w)]
        if sum(counts) != N:
            raise Failure("randint-outside-[a,b]" + ("|a!=0" if a != 0 else ""), observed=sorted(cnt)[:5], expected=[a, a + w - 1])
        if w > 1 and chi2_p(counts) < 1e-9:
            raise Failure("randint-not-uniform", observed=counts[:10])
        n = case["n"]
        perms = list(itertools.permutations(range(n)))
        pc = {p: 0 for p in perms}
        for _ in range(300 * len(perms)):
            s = list(range(n))
            srandom.shuffle(s)
            pc[tuple(s)] = pc.get(tuple(s), 0) + 1
        if len(perms) > 1 and chi2_p([pc[p] for p in perms]) < 1e-9:
            raise Failure("shuffle-not-uniform", observed=sorted(pc.values())[:6])
        bins = [0] * 20
        for _ in range(8000):
            r = srandom.random()
            if not 0.0 <= r < 1.0:
                raise Failure("random-outside-[0,1)", observed=r)
            bins[int(r * 20)] += 1
        if chi2_p(bins) < 1e-9:
            raise Failure("random-not-uniform", observed=bins)
        seq = list(range(case["w"]))
        cc = [0] * len(seq)
        for _ in range(400 * len(seq)):
            cc[srandom.choice(seq)] += 1
        if len(seq) > 1 and chi2_p(cc) < 1e-9:
            raise Failure("choice-not-uniform", observed=cc[:10])
    finally:
        srandom.use_deterministic_prng(False)
    return dict(kind="statistical")


class Stub:
    def __init__(self, words):
        self.words = list(words)
        self.used = 0

    def next(self):
        if self.used < len(self.words):
            v = self.words[self.used]
        else:
            v = 0
        self.used += 1
        return v


def _splitmix(seed):
    """deterministic 32-bit word stream derived from the case (pure function of the generated case)"""
    x = seed & 0xFFFFFFFFFFFFFFFF
    while True:
        x = (x + 0x9E3779B97F4A7C15) & 0xFFFFFFFFFFFFFFFF
        z = x
        z = ((z ^ (z >> 30)) * 0xBF58476D1CE4E5B9) & 0xFFFFFFFFFFFFFFFF
        z = ((z ^ (z >> 27)) * 0x94D049BB133111EB) & 0xFFFFFFFFFFFFFFFF
        yield ((z ^ (z >> 31)) >> 32) & 0xFFFFFFFF


class Stream:
    """raw-word source backed by a deterministic stream"""

    def __init__(self, seed):
        self.it = _splitmix(seed)
        self.used = 0

    def next(self):
        self.used += 1
        return next(self.it)


def explore_shuffle(dr, n, max_leaves=20000):
    """exact distribution of dr.shuffle over range(n) as a function of its randint draws, whatever their
    order: depth-first walk over the decision tree of randint(a, b) calls, each branch weighted
    1/(b-a+1).  -> {permutation: Fraction} or None when shuffle does not draw through dr.randint"""
    from fractions import Fraction

    dist = {}
    stack = [[]]
    leaves = 0
    saved = dr.randint
    try:
        while stack:
            prefix = stack.pop()
            calls = []

            def ri(a, b):
                if b < a:
                    raise ValueError("empty range")
                k = len(calls)
                v = prefix[k] if k < len(prefix) else a
                calls.append((a, b, v))
                return v

            dr.randint = ri
            seq = list(range(n))
            dr.shuffle(seq)
            dr.randint = saved
            if n >= 2 and not calls:
                return None
            p = Fraction(1)
            for (a, b, v) in calls:
                p /= (b - a + 1)
            dist[tuple(seq)] = dist.get(tuple(seq), 0) + p
            leaves += 1
            if leaves > max_leaves:
                return None
            for k in range(len(prefix), len(calls)):
                a, b, v = calls[k]
                for alt in range(a + 1, b + 1):
                    stack.append([c[2] for c in calls[:k]] + [alt])
    finally:
        dr.randint = saved
    return dist


def check_structural(case):
    """exact uniformity where it can be established exactly.
    randint: when the raw words are used the way the module documents (x accepted iff
    x < 2^32 - 2^32 mod w, result a + x mod w) every value has the same number of accepted preimages and
    uniformity is exact; an implementation that maps words differently is not reported for that - it is
    held to a statistical test on the widths where a modulo bias would be largest.
    shuffle: the exact distribution over the decision tree of its randint draws (any draw order) must give
    every permutation probability 1/n!."""
    from fractions import Fraction

    from cspuz.generator import deterministic_random as dr

    if not hasattr(dr, "_rng"):
        return dict(kind="structural-skipped")
    saved = dr._rng
    documented = True
    try:
        a, w = case["a"], case["w"]
        limit = 2 ** 32 - (2 ** 32 % w)
        for x in case["words"]:
            st = Stub([x, 0])
            dr._rng = st
            v = dr.randint(a, a + w - 1)
            if not a <= v <= a + w - 1:
                raise Failure("randint-outside-[a,b]" + ("|a!=0" if a != 0 else ""), observed=dict(word=x, got=v),
                              expected=[a, a + w - 1])
            if x < limit:
                if st.used != 1 or v != a + x % w:
                    documented = False
            elif st.used != 2 or v != a:
                documented = False
        if limit < 2 ** 32:
            # rejected words are redrawn as often as it takes (here: two rejections in a row)
            y = case["words"][0] % limit
            st = Stub([2 ** 32 - 1, limit, y, 0])
            dr._rng = st
            v = dr.randint(a, a + w - 1)
            if not a <= v <= a + w - 1:
                raise Failure("randint-outside-[a,b]" + ("|a!=0" if a != 0 else ""), observed=dict(got=v),
                              expected=[a, a + w - 1])
            if st.used != 3 or v != a + y % w:
                documented = False
        if documented:
            # equal numbers of accepted preimages per residue for huge w
            W = case["bigw"]
            lim = 2 ** 32 - (2 ** 32 % W)
            counts = []
            for r in (0, W - 1, case["res"] % W):
                k = 0
                x = r
                while x < 2 ** 32:
                    st = Stub([x, 0])
                    dr._rng = st
                    v = dr.randint(case["a"], case["a"] + W - 1)
                    if st.used == 1:
                        if v != case["a"] + r:
                            documented = False
                        k += 1
                    x += W
                counts.append(k)
            if documented and (len(set(counts)) != 1 or counts[0] != lim // W):
                raise Failure("randint-preimage-counts-differ", observed=counts, expected=lim // W)
        if not documented:
            # another word-to-value mapping: statistical test on widths with the largest possible modulo bias
            for (W, low, p_uniform) in ((3 * 2 ** 30, 2 ** 30, Fraction(1, 3)), (5 * 2 ** 29, 3 * 2 ** 29, Fraction(3, 5))):
                dr._rng = Stream(case["res"] * 7919 + W)
                N = 20000
                k = 0
                for _ in range(N):
                    v = dr.randint(case["a"], case["a"] + W - 1)
                    if not case["a"] <= v <= case["a"] + W - 1:
                        raise Failure("randint-outside-[a,b]" + ("|a!=0" if case["a"] != 0 else ""), observed=v)
                    if v - case["a"] < low:
                        k += 1
                mean = N * float(p_uniform)
                sd = math.sqrt(N * float(p_uniform) * (1 - float(p_uniform)))
                if abs(k - mean) > 6.5 * sd:
                    raise Failure("randint-not-uniform|wide-range", observed=dict(width=W, below=low, count=k, of=N),
                                  expected="%.0f +- %.0f" % (mean, 6.5 * sd))
        # shuffle
        dr._rng = saved
        n = case["n"]
        dist = explore_shuffle(dr, n)
        shuffle_exact = dist is not None
        if dist is not None:
            for perm in dist:
                if sorted(perm) != list(range(n)):
                    raise Failure("shuffle-not-a-permutation", observed=list(perm))
            want = Fraction(1, math.factorial(n))
            bad = {perm: pr for perm, pr in dist.items() if pr != want}
            if len(dist) != math.factorial(n) or bad:
                raise Failure("shuffle-not-exactly-uniform", observed=dict(
                    permutations_reached=len(dist), example=[[list(k), str(v)] for k, v in sorted(bad.items())[:3]]),
                    expected="each of the %d permutations with probability %s" % (math.factorial(n), want))
        # random
        st = Stub([case["words"][0], case["words"][-1]])
        dr._rng = st
        r = dr.random()
        if not 0 <= r < 1:
            raise Failure("random-outside-[0,1)", observed=r)
    finally:
        dr._rng = saved
    return dict(kind="structural", documented_mapping=documented, shuffle_exact=shuffle_exact)


# ------------------------------------------------------------------ generators
def strategies():
    from hypothesis import strategies as st

    @st.composite
    def array_pattern(draw):
        h = draw(st.integers(1, 4))
        w = draw(st.integers(1, 4))
        vals = draw(st.sampled_from([[0, 1], [0, 1, 2, 3], [-1, 0, 5], ["..", "a", "b"]]))
        default = vals[0]
        o = {}
        if draw(st.booleans()):
            o["symmetry"] = True
        da = draw(st.sampled_from([False, False, True, [[-1, 0], [1, 0]], [[0, 1], [0, -1], [1, 1], [-1, -1]]]))
        if da:
            o["disallow_adjacent"] = da
        if draw(st.integers(0, 3)) == 0:
            o["use_move"] = True
        if draw(st.integers(0, 4)) == 0 and not o.get("disallow_adjacent"):
            # a symmetric initial problem
            g = [[default] * w for _ in range(h)]
            for _ in range(draw(st.integers(0, 3))):
                y, x = draw(st.integers(0, h - 1)), draw(st.integers(0, w - 1))
                v = draw(st.sampled_from(vals[1:]))
                g[y][x] = v
                g[h - 1 - y][w - 1 - x] = draw(st.sampled_from(vals[1:])) if (h - 1 - y, w - 1 - x) != (y, x) else v
            o["initial"] = g
        return ["array", h, w, vals, default, o]

    @st.composite
    def seg_pattern(draw):
        h = draw(st.integers(1, 3))
        w = draw(st.integers(1, 4))
        return ["seg", h, w, dict(min_num_blocks=draw(st.sampled_from([None, 1, 2])) if h * w >= 2 else None,
                                  max_block_size=draw(st.sampled_from([None, h * w, max(2, h * w - 1)])))]

    choice = st.builds(lambda vs: ["choice", vs, vs[0]],
                       st.sampled_from([[0, 1], ["..", "^0", "v1", "<2"], [3, 1, 4, 1, 5], [0]]))
    const = st.builds(lambda v: ["const", v], st.sampled_from([7, "k", None]))
    leaf = st.one_of(choice, choice, array_pattern(), array_pattern(), seg_pattern(), const)
    pattern = st.recursive(leaf, lambda ch: st.one_of(
        st.builds(lambda xs: ["list", xs], st.lists(ch, min_size=1, max_size=3)),
        st.builds(lambda xs: ["tuple", xs], st.lists(ch, min_size=1, max_size=3))), max_leaves=5)

    @st.composite
    def gen_case(draw, kind):
        p = draw(pattern.filter(lambda q: any(True for _ in builders(q))))
        if kind == "fresh" and draw(st.integers(0, 2)) > 0:
            # string-valued choices: anything that orders them by hash differs between interpreters
            strs = draw(st.sampled_from([["..", "^0", "v1", "<2", ">3"], ["a", "b", "c", "d"], ["..", "??", "x"]]))
            p = ["list", [["choice", strs, strs[0]], ["choice", strs, strs[0]], p]]
        return dict(kind=kind, pattern=p, seed=draw(st.integers(0, 2 ** 32 - 1)), salt=draw(st.integers(0, 10 ** 6)),
                    sat_pct=draw(st.sampled_from([30, 60, 90, 100])), uniq_pct=draw(st.sampled_from([0, 3, 10, 30])),
                    pretest_pct=draw(st.sampled_from([50, 90])), use_pretest=draw(st.booleans()),
                    use_penalty=draw(st.booleans()), max_steps=draw(st.integers(1, 12)),
                    solve_initial=draw(st.booleans()))

    rng_ab = st.one_of(
        st.tuples(st.integers(-50, 50), st.integers(0, 63)).map(lambda t: (t[0], t[0] + t[1])),
        st.tuples(st.integers(-10 ** 9, 10 ** 9), st.integers(0, 2 ** 32 - 1)).map(lambda t: (t[0], t[0] + t[1])),
        st.tuples(st.integers(-5, 5), st.sampled_from([2 ** 32, 2 ** 32 + 5, -1, -7])).map(lambda t: (t[0], t[0] + t[1])),
    )
    range_case = st.builds(lambda ab, seed, seq: dict(kind="range", a=ab[0], b=ab[1], seed=seed, seq=seq),
                           rng_ab, st.integers(0, 2 ** 32 - 1),
                           st.lists(st.integers(-3, 3), max_size=6))
    stat_case = st.builds(lambda a, w, n, seed: dict(kind="stat", a=a, w=w, n=n, seed=seed),
                          st.integers(-20, 20), st.integers(1, 50), st.integers(1, 4), st.integers(0, 50))
    word = st.one_of(st.integers(0, 2 ** 32 - 1), st.integers(2 ** 32 - 200, 2 ** 32 - 1), st.integers(0, 100))
    struct_case = st.builds(
        lambda a, w, words, bigw, res, n: dict(kind="struct", a=a, w=w, words=words, bigw=bigw, res=res, n=n),
        st.integers(-1000, 1000), st.one_of(st.integers(1, 100), st.integers(1, 2 ** 32)),
        st.lists(word, min_size=1, max_size=12), st.integers(2 ** 26 + 1, 2 ** 32), st.integers(0, 2 ** 32),
        st.integers(1, 5))
    return dict(sound=gen_case("sound"), repro=gen_case("repro"), fresh=gen_case("fresh"),
                backends=st.builds(lambda s: dict(kind="backends", seed=s), st.integers(0, 10 ** 6)),
                range=range_case, stat=stat_case, struct=struct_case)


def body(case):
    k = case["kind"]
    return {"sound": check_soundness, "repro": check_repro, "fresh": check_fresh, "backends": check_backends,
            "range": check_range, "stat": check_statistical, "struct": check_structural}[k](case)


def shard(arg):
    seed, plan = arg
    st = Stats()
    strat = strategies()
    for kind, n in plan.items():
        if n <= 0:
            continue

        def b(case):
            try:
                out = body(case)
            except Failure:
                st.case(canon=case, nontrivial=True, classes=["failed:" + case["kind"]])
                raise
            cl = ["kind:" + case["kind"]]
            nt = True
            if case["kind"] == "sound":
                nt = out["calls"] >= 3 and out["moves"] >= 2
                if out["res"]:
                    cl.append("sound:returned-a-problem")
                if nt:
                    cl.append("sound:>=3-calls-and-an-accepted-move")
                for _, bd in builders(case["pattern"]):
                    cl.append("builder:" + bd[0])
                    if bd[0] == "array":
                        for o in ("symmetry", "disallow_adjacent", "use_move"):
                            if bd[5].get(o):
                                cl.append("array:" + o)
            elif case["kind"] == "repro":
                if out["differs_for_other_seed"]:
                    cl.append("repro:other-seed-gives-other-sequence")
                nt = out["calls"] >= 2
            elif case["kind"] == "range":
                nt = out.get("a_nonzero", True)
            elif case["kind"] == "struct":
                if out.get("documented_mapping"):
                    cl.append("struct:documented-word-mapping")
                if out.get("shuffle_exact"):
                    cl.append("struct:shuffle-distribution-exact")
            st.case(canon=case, nontrivial=nt, classes=cl,
                    sample=case if nt and len(json.dumps(case, default=repr)) < 700 else None)

        hyp_search(st, strat[kind], b, seed=seed + hash(kind) % 97, max_examples=n, check="c19." + kind,
                   shrink=kind not in ("fresh", "backends", "stat"))
    return st


def run(ctx):
    ctx.rule = (
        "Hypothesis-generated cases of seven kinds: (sound) builder patterns (Choice, ArrayBuilder2D with "
        "symmetry / disallow_adjacent incl. custom offset lists / use_move / symmetric initial, "
        "SegmentationBuilder2D, nested lists and tuples with constants) x pure hash-based solver / uniqueness "
        "/ score / pretest / penalty callbacks, checked through a wrapped neighbour generator; (repro) same "
        "seed under two Python random.seed values and another seed; (backends) a real cspuz model on z3 vs "
        "the cspuz_core stand-in; (fresh) another interpreter started with another PYTHONHASHSEED; (range) randint/choice/shuffle/random; (stat) "
        "chi-square with p > 1e-9; (struct) dictated raw 32-bit words. non-trivial = soundness run with >= 3 "
        "solver calls and an accepted move / randint with a != 0 / every other case; distinct by case hash")
    ctx.assumptions = [
        "uniformity of the underlying xorshift stream is taken from the literature; PBT refutes gross "
        "non-uniformity (chi-square, p > 1e-9 on fixed seeds) and checks the word-to-value mapping exactly",
        "the adjacency clause is asserted only with use_move=False; custom offset lists are symmetric under negation",
        "solver callbacks are pure functions of the problem (salted hashes)",
        "chi-square p-values use scipy when importable, otherwise the Wilson-Hilferty approximation",
    ]
    q = ctx.quick()
    plan = dict(sound=200 if q else 3000, repro=60 if q else 800, range=100 if q else 2000,
                stat=2 if q else 20, struct=80 if q else 1500, backends=1 if q else 6, fresh=3 if q else 8)
    k = 16 if q else 16
    for r in pmap(shard, [(ctx.seed * 1000 + i, plan if i < 6 or not q else dict(plan, fresh=0, backends=0))
                          for i in range(k)]):
        ctx.stats.merge(r)
    cl = ctx.stats.classes
    ctx.floor("soundness runs with >= 3 solver calls and an accepted move (share)",
              round(cl["sound:>=3-calls-and-an-accepted-move"] / max(1, cl["kind:sound"]), 3), 0.2)
    ctx.floor("soundness runs that returned a problem", cl["sound:returned-a-problem"], 50)
    ctx.floor("other seed gives another sequence (share, sanity of the check)",
              round(cl["repro:other-seed-gives-other-sequence"] / max(1, cl["kind:repro"]), 3), 0.5)
    for o in ("symmetry", "disallow_adjacent", "use_move"):
        ctx.floor("array builders with " + o, cl["array:" + o], 40)
    ctx.floor("segmentation builders", cl["builder:seg"], 40)


def replay(ctx, rep):
    body(rep["case"])
