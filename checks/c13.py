"""C13 - array indexing and slicing follow Python nested-list semantics.

Oracle: Python's own list indexing applied per axis to range(size) (rows by the first key,
columns by the second).  The arrays are built over variables whose ids are their row-major
positions, so "which element" is read off the variable id.
"""

import itertools

from vlib.harness import Failure, Stats, hyp_search, pmap

LEVEL = "exploration"

STEPS = [None, 1, -1, 2, -2, 3, -3, 5, -5]


# ------------------------------------------------------------------ key encoding (plain data)
def dec_key(k):
    if isinstance(k, int):
        return k
    if "s" in k:
        return slice(*k["s"])
    if "t" in k:
        return tuple(dec_key(x) for x in k["t"])
    if "l" in k:
        return [tuple(p) for p in k["l"]]
    raise ValueError(k)


def enc_slice(a, b, c):
    return {"s": [a, b, c]}


def make_array(kind, h, w, elem):
    from cspuz import Solver

    s = Solver()
    if kind == "1d":
        return s.bool_array(h) if elem == "bool" else s.int_array(h, -3, 3)
    return s.bool_array((h, w)) if elem == "bool" else s.int_array((h, w), -3, 3)


def ids_of(res):
    """-> (kind, shape, ids) of a result through its public data model."""
    from cspuz.array import Array1D, Array2D
    from cspuz.expr import BoolVar, IntVar

    if isinstance(res, (BoolVar, IntVar)):
        return ("scalar", None, res.id)
    if isinstance(res, Array2D):
        sh = tuple(res.shape)
        flat = [v.id for v in res.data]
        # nested-list view through iteration must agree with shape
        return ("2d", list(sh), flat)
    if isinstance(res, Array1D):
        flat = [v.id for v in res.data]
        if tuple(res.shape) != (len(flat),) or len(res) != len(flat):
            raise Failure("result-1d-shape-inconsistent", observed=[list(res.shape), len(flat)])
        return ("1d", [len(flat)], flat)
    raise Failure("result-unexpected-type", observed=type(res).__name__)


def axis_select(size, key):
    """Python list semantics on one axis: returns (is_int, list of positions) or raises."""
    r = list(range(size))
    if isinstance(key, int):
        return True, [r[key]]  # IndexError from the list itself
    return False, r[key]


def expected_2d(h, w, key):
    """-> (kind, shape, ids) | ('IndexError',) | ('either', alt...) following nested lists."""
    if isinstance(key, list):
        ids = []
        rows = [list(range(y * w, (y + 1) * w)) for y in range(h)]
        for y, x in key:
            ids.append(rows[y][x])  # IndexError propagates
        return ("1d", [len(ids)], ids)
    if not isinstance(key, tuple):
        key = (key, slice(None))
    k0, k1 = key
    err0 = err1 = False
    try:
        i0, rows = axis_select(h, k0)
    except IndexError:
        err0 = True
    try:
        i1, cols = axis_select(w, k1)
    except IndexError:
        err1 = True
    if err0:
        raise IndexError
    if err1:
        if not i0 and len(rows) == 0:
            # tolerance (DESIGN 5a): no row selected + out-of-range column integer:
            # [row[k1] for row in rows[k0]] is [] for nested lists, per-axis indexing raises.
            return ("either-empty-or-indexerror",)
        raise IndexError
    ids = [y * w + x for y in rows for x in cols]
    if i0 and i1:
        return ("scalar", None, ids[0])
    if i0 or i1:
        return ("1d", [len(ids)], ids)
    return ("2d", [len(rows), len(cols)], ids)


def key_class(key):
    def one(k):
        if isinstance(k, int):
            return "int"
        st = k.step
        if st is not None and st < 0:
            return "negstep"
        return "slice"

    if isinstance(key, list):
        return "coords"
    if isinstance(key, tuple):
        return one(key[0]) + "," + one(key[1])
    return one(key)


def is_nontrivial(key, sizes):
    """negative step, or a bound outside [0,size], or a negative bound / negative int."""
    ks = key if isinstance(key, tuple) else (key,)
    if isinstance(key, list):
        return any(y < 0 or x < 0 for y, x in key)
    for k, size in zip(ks, sizes):
        if isinstance(k, int):
            if k < 0 or k >= size:
                return True
        else:
            if k.step is not None and k.step < 0:
                return True
            for b in (k.start, k.stop):
                if b is not None and (b < 0 or b > size):
                    return True
    return False


def check_index(case):
    kind, h, w, elem = case["kind"], case["h"], case["w"], case["elem"]
    key = dec_key(case["key"])
    arr = make_array(kind, h, w, elem)
    # expected
    try:
        if kind == "1d":
            isint, pos = axis_select(h, key)
            exp = ("scalar", None, pos[0]) if isint else ("1d", [len(pos)], pos)
        else:
            exp = expected_2d(h, w, key)
    except IndexError:
        exp = ("IndexError",)
    # observed
    try:
        res = arr[key]
        obs = ids_of(res)
        # type of the result container
        from cspuz.array import BoolArray1D, BoolArray2D, IntArray1D, IntArray2D

        want = {
            ("bool", "1d"): BoolArray1D, ("bool", "2d"): BoolArray2D,
            ("int", "1d"): IntArray1D, ("int", "2d"): IntArray2D,
        }.get((elem, obs[0]))
        if want is not None and type(res) is not want:
            raise Failure("result-container-type|" + key_class(key),
                          observed=type(res).__name__, expected=want.__name__)
    except IndexError:
        obs = ("IndexError",)
    except Failure:
        raise
    except Exception as e:
        obs = ("exception", type(e).__name__)
    if exp[0] == "either-empty-or-indexerror":
        if obs == ("IndexError",) or (obs[0] in ("1d", "2d") and obs[2] == []):
            return
        raise Failure("empty-rows-oob-column|" + key_class(key), observed=list(obs),
                      expected="IndexError or empty")
    if list(obs) != list(exp):
        if obs[0] == "IndexError" or exp[0] == "IndexError":
            m = "indexerror-mismatch"
        elif obs[0] == "exception":
            m = "unexpected-" + obs[1]
        elif obs[0] != exp[0] or obs[1] != exp[1]:
            m = "wrong-shape"
        else:
            m = "wrong-elements"
        raise Failure("%s|%s|%s" % (m, kind, key_class(key)), observed=list(obs),
                      expected=list(exp))


def check_reshape(case):
    kind, h, w, elem = case["kind"], case["h"], case["w"], case["elem"]
    arr = make_array(kind, h, w, elem)
    n = h if kind == "1d" else h * w
    op = case["op"]
    if op == "flatten":
        obs = ids_of(arr.flatten())
        if obs != ("1d", [n], list(range(n))):
            raise Failure("flatten-order", observed=list(obs), expected=list(range(n)))
        return
    h2, w2 = case["shape"]
    try:
        res = arr.reshape((h2, w2))
    except Exception as e:
        if h2 * w2 == n:
            raise Failure("reshape-rejects-valid|" + type(e).__name__, observed=type(e).__name__)
        return
    obs = ids_of(res)
    if obs != ("2d", [h2, w2], list(range(n))):
        raise Failure("reshape-order" if h2 * w2 == n else "reshape-accepts-wrong-size",
                      observed=list(obs), expected=["2d", [h2, w2], list(range(n))])
    # nested-list view: rows via integer index
    for y in range(h2):
        row = ids_of(res[y])
        if row != ("1d", [w2], list(range(y * w2, (y + 1) * w2))):
            raise Failure("reshape-row-view", observed=list(row))


def _model_apply(model, op):
    """model = (kind, shape, ids); -> expected (kind, shape, ids) | ('IndexError',) | ('ValueError',) | either"""
    kind, shape, ids = model
    if op[0] == "flatten":
        return ("1d", [len(ids)], list(ids))
    if op[0] == "reshape":
        h2, w2 = op[1]
        if h2 * w2 != len(ids):
            return ("ValueError",)
        return ("2d", [h2, w2], list(ids))
    key = dec_key(op[1])
    try:
        if kind == "1d":
            isint, pos = axis_select(shape[0], key)
            exp = ("scalar", None, pos[0]) if isint else ("1d", [len(pos)], pos)
        else:
            exp = expected_2d(shape[0], shape[1], key)
    except IndexError:
        return ("IndexError",)
    if exp[0] == "either-empty-or-indexerror":
        return exp
    if exp[0] == "scalar":
        return ("scalar", None, ids[exp[2]])
    return (exp[0], exp[1], [ids[p_] for p_ in exp[2]])


def check_history(case):
    """a pool of arrays derived from one another (index / slice / coordinate list / reshape / flatten);
    every step is applied to a pool member chosen by the case - also to members that were already used -
    and its result must be what the nested-list model of THAT member says.  case['steps'] =
    [[pool index, op], ...] with op = ['index', key] | ['reshape', [h, w]] | ['flatten']"""
    kind, h, w, elem = case["kind"], case["h"], case["w"], case["elem"]
    arr = make_array(kind, h, w, elem)
    n = h if kind == "1d" else h * w
    pool = [(arr, (kind, [h] if kind == "1d" else [h, w], list(range(n))))]
    for si, (pi, op) in enumerate(case["steps"]):
        a, model = pool[pi % len(pool)]
        if op[0] == "index" and model[0] == "1d" and not isinstance(op[1], int) and "s" not in op[1]:
            continue  # pair keys and coordinate lists belong to 2-D arrays only
        if op[0] == "flatten" and model[0] == "1d":
            continue  # 1-D arrays have no flatten()
        exp = _model_apply(model, op)
        try:
            if op[0] == "flatten":
                res = a.flatten()
            elif op[0] == "reshape":
                res = a.reshape(tuple(op[1]))
            else:
                res = a[dec_key(op[1])]
            obs = ids_of(res)
        except IndexError:
            obs, res = ("IndexError",), None
        except ValueError:
            obs, res = ("ValueError",), None
        except Failure:
            raise
        except Exception as e:
            obs, res = ("exception", type(e).__name__), None
        if exp[0] == "either-empty-or-indexerror":
            if obs == ("IndexError",) or (obs[0] in ("1d", "2d") and obs[2] == []):
                continue
        elif list(obs) == list(exp):
            if obs[0] in ("1d", "2d"):
                pool.append((res, (obs[0], obs[1], obs[2])))
            continue
        raise Failure("history|%s-after-%d-steps|%s" % (op[0], min(si, 3), model[0]), observed=list(obs)[:3],
                      expected=list(exp)[:3], detail=dict(step=si))


def body(case):
    if "steps" in case:
        check_history(case)
    elif case.get("op", "index") == "index":
        check_index(case)
    else:
        check_reshape(case)


# ------------------------------------------------------------------ enumeration
def axis_ints(size):
    return list(range(-size - 2, size + 3))


def axis_slices(size, steps=STEPS):
    bounds = [None] + list(range(-size - 3, size + 4))
    for a in bounds:
        for b in bounds:
            for c in steps:
                yield (a, b, c)


REP_SLICES = [(None, None, None), (None, None, -1), (1, None, 2), (-2, None, -1),
              (None, -10, -1), (10, None, -2)]


def enum_shard(arg):
    kind, h, w, full = arg
    st = Stats()
    sizes = (h,) if kind == "1d" else (h, w)

    def go(enc, key):
        for elem in (("bool", "int") if (h + w) % 2 == 0 else ("int", "bool"))[:1 if kind == "2d" else 2]:
            case = dict(kind=kind, h=h, w=w, elem=elem, key=enc)
            nt = is_nontrivial(key, sizes)
            try:
                check_index(case)
            except Failure as f:
                st.fail(f, case, "c13.index")
            st.case(nontrivial=nt, counted=True, classes=[key_class(key)],
                    sample=case if nt else None)

    if kind == "1d":
        for i in axis_ints(h):
            go(i, i)
        for (a, b, c) in axis_slices(h):
            go(enc_slice(a, b, c), slice(a, b, c))
        return st
    # 2-D: single keys
    for i in axis_ints(h):
        go(i, i)
    for (a, b, c) in axis_slices(h):
        go(enc_slice(a, b, c), slice(a, b, c))
    # pairs: one axis exhaustive, the other from {':', every int, representative slices}
    others_w = [("i", i) for i in axis_ints(w)] + [("s", s) for s in REP_SLICES]
    others_h = [("i", i) for i in axis_ints(h)] + [("s", s) for s in REP_SLICES]

    def mk(t, v):
        if t == "i":
            return v, v
        return enc_slice(*v), slice(*v)

    ax0 = [("i", i) for i in axis_ints(h)] + [("s", s) for s in axis_slices(h)]
    ax1 = [("i", i) for i in axis_ints(w)] + [("s", s) for s in axis_slices(w)]
    if full:
        pairs = itertools.product(ax0, ax1)
    else:
        pairs = itertools.chain(itertools.product(ax0, others_w), itertools.product(others_h, ax1))
    for (t0, v0), (t1, v1) in pairs:
        e0, k0 = mk(t0, v0)
        e1, k1 = mk(t1, v1)
        go({"t": [e0, e1]}, (k0, k1))
    return st


def coords_shard(arg):
    h, w = arg
    st = Stats()
    ys = range(-h - 1, h + 1)
    xs = range(-w - 1, w + 1)
    cells = [(y, x) for y in ys for x in xs]
    lists = [[]] + [[c] for c in cells]
    # pairs in both orders (order must be preserved), limited
    for a in cells[:: max(1, len(cells) // 12)]:
        for b in cells[:: max(1, len(cells) // 12)]:
            lists.append([a, b])
            lists.append([b, a, a])
    for L in lists:
        case = dict(kind="2d", h=h, w=w, elem="bool" if (h + w) % 2 else "int",
                    key={"l": [list(p) for p in L]})
        try:
            check_index(case)
        except Failure as f:
            st.fail(f, case, "c13.coords")
        nt = is_nontrivial(dec_key(case["key"]), (h, w))
        st.case(nontrivial=nt, counted=True, classes=["coords"], sample=case if nt else None)
    # reshape / flatten
    n = h * w
    for kind in ("1d", "2d"):
        hh, ww = (n, 0) if kind == "1d" else (h, w)
        if kind == "2d":
            case = dict(kind=kind, h=hh, w=ww, elem="bool", op="flatten")
            try:
                check_reshape(case)
            except Failure as f:
                st.fail(f, case, "c13.reshape")
            st.case(nontrivial=n > 1, counted=True, classes=["flatten"])
        for h2 in range(0, n + 2):
            for w2 in range(0, n + 2):
                if h2 * w2 != n and (h2 + w2) % 3:
                    continue
                for elem in ("bool", "int"):
                    case = dict(kind=kind, h=hh, w=ww, elem=elem, op="reshape", shape=[h2, w2])
                    try:
                        check_reshape(case)
                    except Failure as f:
                        st.fail(f, case, "c13.reshape")
                    st.case(nontrivial=(h2 * w2 == n and h2 > 1 and w2 > 1), counted=True,
                            classes=["reshape" if h2 * w2 == n else "reshape-wrong-size"],
                            sample=case if h2 * w2 == n and h2 > 1 and w2 > 1 else None)
    return st


def large_shard(arg):
    """arrays with more than 256 elements: flatten / reshape to every factorisation, row/column views and
    strided slices (identity of elements by variable id)"""
    h, w = arg
    st = Stats()
    n = h * w
    for elem in ("bool", "int"):
        for kind in ("1d", "2d"):
            hh, ww = (n, 0) if kind == "1d" else (h, w)
            if kind == "2d":
                case = dict(kind=kind, h=hh, w=ww, elem=elem, op="flatten")
                try:
                    check_reshape(case)
                except Failure as f:
                    st.fail(f, case, "c13.large")
                st.case(nontrivial=True, counted=True, classes=["large-array"], sample=case)
            for h2 in range(1, n + 1):
                if n % h2:
                    continue
                case = dict(kind=kind, h=hh, w=ww, elem=elem, op="reshape", shape=[h2, n // h2])
                try:
                    check_reshape(case)
                except Failure as f:
                    st.fail(f, case, "c13.large")
                st.case(nontrivial=True, counted=True, classes=["large-array", "reshape"], sample=case)
        for key in ({"t": [{"s": [None, None, -1]}, {"s": [None, None, 7]}]}, {"t": [-1, {"s": [None, None, -3]}]},
                    {"t": [{"s": [5, None, 11]}, -1]}, h - 1, {"s": [-2, None, None]}):
            case = dict(kind="2d", h=h, w=w, elem=elem, key=key)
            try:
                check_index(case)
            except Failure as f:
                st.fail(f, case, "c13.large")
            st.case(nontrivial=True, counted=True, classes=["large-array"], sample=None)
    return st


def case_strategy(max_side):
    from hypothesis import strategies as st

    def sl(size):
        b = st.one_of(st.none(), st.integers(-size - 4, size + 4))
        stp = st.one_of(st.none(), st.integers(-6, 6).filter(lambda v: v != 0))
        return st.builds(enc_slice, b, b, stp)

    def key(size):
        return st.one_of(st.integers(-size - 2, size + 2), sl(size), sl(size))

    @st.composite
    def c(draw):
        h = draw(st.integers(0, max_side))
        w = draw(st.integers(0, max_side))
        elem = draw(st.sampled_from(["bool", "int"]))
        which = draw(st.integers(0, 9))
        if which == 0:
            return dict(kind="1d", h=h, w=0, elem=elem, key=draw(key(h)))
        if which == 1:
            pts = draw(st.lists(st.tuples(st.integers(-h - 1, h), st.integers(-w - 1, w)),
                                max_size=5))
            return dict(kind="2d", h=h, w=w, elem=elem, key={"l": [list(p) for p in pts]})
        if which == 2:
            return dict(kind="2d", h=h, w=w, elem=elem, key=draw(key(h)))
        return dict(kind="2d", h=h, w=w, elem=elem, key={"t": [draw(key(h)), draw(key(w))]})

    return c()


def history_strategy(max_side):
    from hypothesis import strategies as st

    def sl(size):
        b = st.one_of(st.none(), st.integers(-size - 2, size + 2))
        stp = st.one_of(st.none(), st.sampled_from([1, -1, 2, -2, 3]))
        return st.builds(enc_slice, b, b, stp)

    def key(size):
        return st.one_of(st.integers(-size, size - 1) if size else st.just(0), sl(size), sl(size))

    @st.composite
    def c(draw):
        h = draw(st.integers(1, max_side))
        w = draw(st.integers(1, max_side))
        elem = draw(st.sampled_from(["bool", "int"]))
        kind = draw(st.sampled_from(["2d", "2d", "2d", "1d"]))
        n = h if kind == "1d" else h * w
        facts = [[a, n // a] for a in range(1, n + 1) if n % a == 0]
        steps = []
        for _ in range(draw(st.integers(2, 7))):
            which = draw(st.integers(0, 9))
            pi = draw(st.integers(0, 7))
            if which <= 1:
                op = ["flatten"]
            elif which <= 4:
                # mostly a factorisation of the root size (derived members of the same size accept it too)
                op = ["reshape", draw(st.sampled_from(facts)) if draw(st.integers(0, 5)) else
                      [draw(st.integers(0, max_side)), draw(st.integers(0, max_side))]]
            elif which <= 6:
                op = ["index", draw(key(max(h, w)))]
            elif which == 7:
                pts = draw(st.lists(st.tuples(st.integers(-2, max_side - 1), st.integers(-2, max_side - 1)), max_size=4))
                op = ["index", {"l": [list(p_) for p_ in pts]}]
            else:
                op = ["index", {"t": [draw(key(h)), draw(key(w))]}]
            steps.append([pi, op])
        return dict(kind=kind, h=h, w=w, elem=elem, steps=steps)

    return c()


def history_shard(arg):
    seed, n, max_side = arg
    st = Stats()

    def b(case):
        ops = [s_[1][0] for s_ in case["steps"]]
        nt = "reshape" in ops and "index" in ops
        st.case(canon=case, nontrivial=nt, classes=["history"] + (["history:index-then-reshape-then-index"] if _irx(ops) else []),
                sample=case if nt else None)
        body(case)

    hyp_search(st, history_strategy(max_side), b, seed=seed, max_examples=n, check="c13.history")
    return st


def _irx(ops):
    try:
        i = ops.index("index")
        j = ops.index("reshape", i + 1)
        return "index" in ops[j + 1:]
    except ValueError:
        return False


def hyp_shard(arg):
    seed, n, max_side = arg
    st = Stats()

    def b(case):
        key = dec_key(case["key"])
        sizes = (case["h"],) if case["kind"] == "1d" else (case["h"], case["w"])
        nt = is_nontrivial(key, sizes)
        st.case(canon=case, nontrivial=nt, classes=["hyp:" + key_class(key)],
                sample=case if nt else None)
        body(case)

    hyp_search(st, case_strategy(max_side), b, seed=seed, max_examples=n, check="c13.hyp")
    return st


def run(ctx):
    ctx.rule = (
        "exhaustive per-axis enumeration of integer keys in [-size-2,size+2] and slice triples with "
        "start/stop in {None}+[-size-3,size+3], step in {None,+-1,+-2,+-3,+-5} on 1-D sizes 0..6 and "
        "2-D shapes, one axis exhaustive and the other from {':', every int, 6 representative slices} "
        "(thorough: full product on shapes <= 3x4), coordinate lists, flatten/reshape to every "
        "factorisation (also on arrays with more than 256 elements: 17x17, 16x17, 300x1, 1x257, 20x20, 3x100), plus Hypothesis-drawn key pairs; oracle = Python list indexing per axis. "
        "non-trivial = negative step, or a bound outside [0,size], or a negative bound/index; "
        "distinct by construction for enumerations, by case hash for Hypothesis"
    )
    ctx.assumptions = [
        "step 0 is outside the domain (lists raise ValueError; the property speaks of IndexError)",
        "no row selected + out-of-range column integer accepts either [] or IndexError",
    ]
    quick = ctx.quick()
    shards = [("1d", n, 0, False) for n in range(0, 7)]
    side = 3 if quick else 4
    for h in range(0, side + 1):
        for w in range(0, side + 1):
            full = (not quick) and h * w <= 6 and max(h, w) <= 3
            shards.append(("2d", h, w, full))
    if quick:
        shards += [("2d", 2, 5, False), ("2d", 5, 2, False), ("2d", 1, 6, False)]
    else:
        shards += [("2d", 2, 6, False), ("2d", 6, 2, False), ("2d", 1, 6, False), ("2d", 6, 1, False),
                   ("2d", 3, 4, True), ("2d", 4, 3, True)]
    # biggest first for load balance
    shards.sort(key=lambda s: -((s[1] + 3) * (s[2] + 3) * (50 if s[3] else 1)))
    for r in pmap(enum_shard, shards):
        ctx.stats.merge(r)
    for r in pmap(coords_shard, [(h, w) for h in range(0, 5) for w in range(0, 5)]):
        ctx.stats.merge(r)
    for r in pmap(large_shard, [(17, 17), (16, 17), (300, 1), (1, 257), (20, 20), (16, 16), (3, 100)]):
        ctx.stats.merge(r)
    n_h = 3000 if quick else 40000
    k = 4 if quick else 16
    for r in pmap(hyp_shard, [(ctx.seed * 1000 + i, n_h, 6 if i % 2 else 4) for i in range(k)]):
        ctx.stats.merge(r)
    for r in pmap(history_shard, [(ctx.seed * 1000 + 50 + i, 1500 if quick else 20000, 4 if i % 2 else 6) for i in range(k)]):
        ctx.stats.merge(r)
    ctx.exhaustive = False
    cl = ctx.stats.classes
    ctx.floor("histories with index, then reshape, then index", cl["history:index-then-reshape-then-index"], 300)
    tot = max(1, ctx.stats.evaluations)
    ctx.floor("share of non-trivial keys", ctx.stats.distinct_nontrivial / tot, 0.40)
    ctx.floor("negative-step keys", sum(v for k_, v in cl.items() if "negstep" in k_), 1000)


def replay(ctx, rep):
    body(rep["case"])
