"""C18 - SegmentationBuilder2D only ever produces valid room partitions.

Model-based walk: boards 1..5 x 1..5 (thorough 7x7); a target partition is drawn first and the
bounds are drawn so that the target satisfies them (feasible by construction); start from
initial() (default single block, or initial_blocks = target) and follow a Hypothesis-driven
sequence of proposed updates.  Invariant after every step: the value is a partition of the board
into orthogonally connected non-empty blocks (BFS), block count and sizes within the bounds, and
the value the update was applied to is unchanged (deep-copy comparison); the other candidates
of the same list still apply.
"""

import copy
import random

from vlib.harness import Failure, Stats, hyp_search, pmap, repo_frame_sig

LEVEL = "exploration"
GUARD = 3000


def connected(block):
    s = set(block)
    start = next(iter(s))
    seen = {start}
    stack = [start]
    while stack:
        y, x = stack.pop()
        for p in ((y - 1, x), (y + 1, x), (y, x - 1), (y, x + 1)):
            if p in s and p not in seen:
                seen.add(p)
                stack.append(p)
    return len(seen) == len(s)


def check_value(val, h, w, bounds, where, check_bounds=True):
    if not isinstance(val, list):
        raise Failure("value-not-a-list|" + where, observed=type(val).__name__)
    seen = set()
    for b in val:
        if not isinstance(b, list) or not b:
            raise Failure("empty-or-non-list-block|" + where, observed=repr(b)[:60])
        for c in b:
            if not (isinstance(c, tuple) and len(c) == 2 and 0 <= c[0] < h and 0 <= c[1] < w):
                raise Failure("cell-out-of-board|" + where, observed=repr(c))
            if c in seen:
                raise Failure("cell-in-two-blocks|" + where, observed=repr(c))
            seen.add(c)
        if not connected(b):
            raise Failure("block-not-connected|" + where, observed=sorted(b))
    if len(seen) != h * w:
        raise Failure("cells-missing|" + where, observed=len(seen), expected=h * w)
    if check_bounds:
        mn, mx, ms, xs = bounds
        if not (mn <= len(val) <= mx):
            raise Failure("block-count-out-of-bounds|" + where, observed=len(val), expected=[mn, mx])
        for b in val:
            if not (ms <= len(b) <= xs):
                raise Failure("block-size-out-of-bounds|" + where, observed=len(b), expected=[ms, xs])


def kind_of(update):
    ex, ap = update
    return {(2, 1): "merge", (1, 2): "split", (2, 2): "move"}.get((len(ex), len(ap)), "other")


class Inconclusive(Exception):
    pass


def run_walk(case):
    from cspuz.generator.segmentation import SegmentationBuilder2D

    h, w = case["h"], case["w"]
    kw = {k: v for k, v in case["bounds"].items() if v is not None}
    eff = (kw.get("min_num_blocks") or 1, kw.get("max_num_blocks") or h * w,
           kw.get("min_block_size") or 1, kw.get("max_block_size") or h * w)
    target = [[tuple(c) for c in b] for b in case["target"]]
    if case["start"] == "target":
        kw["initial_blocks"] = target
    if case["allow_unmet"]:
        kw["allow_unmet_constraints_first"] = True
    random.seed(case["pyseed"])
    try:
        from cspuz.generator import srandom
        srandom.use_deterministic_prng(False)
    except Exception:
        pass
    b = SegmentationBuilder2D(h, w, **kw)
    calls = [0]
    orig_choice = random.choice

    def counting_choice(seq):
        calls[0] += 1
        if calls[0] > GUARD or len(seq) == 0:
            # the search for an initial value does not end, or it is stuck in a state without any proposal:
            # there is no initial value to start a walk from (the property speaks about walks from one)
            raise Inconclusive()
        return orig_choice(seq)

    random.choice = counting_choice
    try:
        try:
            cur = b.initial()
        except Inconclusive:
            return dict(inconclusive=True, kinds=[])
        except Exception as e:
            raise Failure("initial-raises|" + repo_frame_sig(e), observed=str(e)[:100])
    finally:
        random.choice = orig_choice
    if case["start"] == "target" and target != [[tuple(c) for c in b2] for b2 in case["target"]]:
        raise Failure("initial-mutates-initial_blocks")
    check_value(cur, h, w, eff, "initial", check_bounds=not case["allow_unmet"])
    kinds = []
    for step, pick in enumerate(case["walk"]):
        try:
            cands = b.candidates(cur)
        except Exception as e:
            raise Failure("candidates-raises|" + repo_frame_sig(e), observed=str(e)[:100])
        if not cands:
            break
        before = copy.deepcopy(cur)
        cand = cands[pick % len(cands)]
        k = kind_of(cand)
        try:
            new = b.copy_with_update(cur, cand)
        except Exception as e:
            raise Failure("copy_with_update-raises|" + repo_frame_sig(e), observed=str(e)[:100])
        if cur != before:
            raise Failure("update-modifies-previous-value|" + k, observed=dict(step=step))
        bounded = not case["allow_unmet"] or all_ok(before, eff)
        check_value(new, h, w, eff, "after-" + k, check_bounds=bounded)
        # the other candidates of the same list still apply to the unchanged value
        # (all of them at the first step, where the walk stands on the drawn target; three of them later)
        for j in (range(len(cands)) if step == 0 else (0, len(cands) // 2, len(cands) - 1)):
            other = b.copy_with_update(cur, cands[j])
            check_value(other, h, w, eff, "sibling-" + kind_of(cands[j]), check_bounds=bounded)
        if cur != before:
            raise Failure("update-modifies-previous-value|sibling", observed=dict(step=step))
        # mutating the new value must not reach back into the old one (no shared block lists that
        # belong to the previous value)
        probe = copy.deepcopy(new)
        for blk in new:
            blk.append(("probe", "probe"))
        if cur != before:
            raise Failure("new-value-aliases-previous-value|" + k, observed=dict(step=step))
        new = probe
        kinds.append(k)
        cur = new
    return dict(inconclusive=False, kinds=kinds)


def all_ok(val, eff):
    mn, mx, ms, xs = eff
    return mn <= len(val) <= mx and all(ms <= len(b) <= xs for b in val)


def strategy(max_side):
    from hypothesis import strategies as st

    @st.composite
    def c(draw):
        h = draw(st.one_of(st.integers(1, max_side), st.integers(2, max_side), st.integers(3, max_side)))
        w = draw(st.one_of(st.integers(1, max_side), st.integers(2, max_side), st.integers(3, max_side)))
        from puzzles.base import components, draw_rooms
        rooms, _ = draw_rooms(draw, st, h, w, (1, 1, 2, 4))
        if h >= 3 and w >= 3 and draw(st.integers(0, 3)) == 0:
            # a block with a hole: the ring around a cell that is a block of its own, with a tail hanging on
            # one ring cell (blocks that enclose other blocks are what a walk rarely reaches by itself)
            cy, cx = draw(st.integers(1, h - 2)), draw(st.integers(1, w - 2))
            ring = [(cy + dy, cx + dx) for dy in (-1, 0, 1) for dx in (-1, 0, 1) if (dy, dx) != (0, 0)]
            outside = sorted({(y + dy, x + dx) for (y, x) in ring for dy, dx in ((-1, 0), (1, 0), (0, -1), (0, 1))
                              if 0 <= y + dy < h and 0 <= x + dx < w} - set(ring) - {(cy, cx)})
            tail = []
            for _ in range(draw(st.integers(0, 2))):
                if outside:
                    tail.append(outside.pop(draw(st.integers(0, len(outside) - 1))))
            block = ring + tail
            rest = {(y, x) for y in range(h) for x in range(w)} - set(block) - {(cy, cx)}
            rooms = [block, [(cy, cx)]] + [sorted(c) for c in sorted(components(rest), key=min)]
        target = [[list(c) for c in r] for r in rooms]
        n = len(target)
        sizes = [len(b) for b in target]

        def opt(v_lo, v_hi):
            return draw(st.one_of(st.none(), st.integers(v_lo, v_hi)))

        bounds = dict(min_num_blocks=opt(1, n), max_num_blocks=opt(n, h * w),
                      min_block_size=opt(1, min(sizes)), max_block_size=opt(max(sizes), h * w))
        start = draw(st.sampled_from(["default", "target", "target"]))
        allow_unmet = draw(st.integers(0, 4)) == 0
        violate = None
        if start == "target" and not allow_unmet and draw(st.integers(0, 2)) == 0:
            # initial_blocks that break exactly ONE bound (the others hold): initial() has to repair them
            opts = []
            if min(sizes) < max(sizes):
                opts += ["min_block_size", "max_block_size"]
            if n >= 2:
                opts.append("max_num_blocks")
            if n < h * w:
                opts.append("min_num_blocks")
            if opts:
                violate = draw(st.sampled_from(opts))
                if violate == "min_block_size":
                    bounds["min_block_size"] = draw(st.integers(min(sizes) + 1, max(sizes)))
                elif violate == "max_block_size":
                    bounds["max_block_size"] = draw(st.integers(max(bounds["min_block_size"] or 1, min(sizes)), max(sizes) - 1))
                elif violate == "max_num_blocks":
                    bounds["max_num_blocks"] = draw(st.integers(max(bounds["min_num_blocks"] or 1, 1), n - 1)) if (bounds["min_num_blocks"] or 1) <= n - 1 else bounds["max_num_blocks"]
                else:
                    bounds["min_num_blocks"] = draw(st.integers(n + 1, min(h * w, bounds["max_num_blocks"] or h * w))) if n + 1 <= (bounds["max_num_blocks"] or h * w) else bounds["min_num_blocks"]
        walk = draw(st.lists(st.integers(0, 10**6), min_size=1, max_size=40))
        return dict(h=h, w=w, target=target, bounds=bounds, start=start, allow_unmet=allow_unmet, violate=violate,
                    pyseed=draw(st.integers(0, 10**6)), walk=walk)

    return c()


def shard(arg):
    seed, n, max_side = arg
    st = Stats()

    def b(case):
        try:
            out = run_walk(case)
        except Failure:
            st.case(canon=case, nontrivial=True, classes=["failed"])
            raise
        ks = set(out["kinds"])
        cl = []
        if out["inconclusive"]:
            cl.append("initial-guard-hit")
        if {"merge", "split", "move"} <= ks:
            cl.append("walk-with-all-three-kinds")
        if case["h"] == 1 or case["w"] == 1:
            cl.append("board-with-side-1")
        for k in ks:
            cl.append("kind:" + k)
        cl.append("start:" + case["start"])
        if case.get("violate") and not out["inconclusive"]:
            cl.append("initial_blocks-breaking-one-bound-repaired")
        nt = len(ks) >= 2
        st.case(canon=case, nontrivial=nt, classes=cl,
                sample=dict(case, kinds=out["kinds"]) if nt else None)
        st.extra["steps"] = st.extra.get("steps", 0) + len(out["kinds"])

    hyp_search(st, strategy(max_side), b, seed=seed, max_examples=n, check="c18")
    return st


def run(ctx):
    ctx.rule = (
        "Hypothesis-generated walks: board 1..5 x 1..5 (thorough 7x7), a drawn target partition, bounds "
        "(min/max block count and size, some None) drawn so that the target satisfies them, start = "
        "initial() from the single block or from initial_blocks = target (also with "
        "allow_unmet_constraints_first), Python's random seeded per case, then up to 40 picks among the "
        "proposed candidates; invariant checked after every step and on sibling candidates. non-trivial = "
        "walk with >= 2 different update kinds; distinct by case hash")
    ctx.assumptions = [
        "bounds are not asserted on values produced while allow_unmet_constraints_first is in effect and the "
        "current value is itself out of bounds",
        "initial() runs under a guard of %d random.choice calls; a guard hit, or a search state without any "
        "proposal (choice from an empty list), is inconclusive, not a failure: the property starts from an "
        "initial value" % GUARD,
    ]
    k, n, side = (16, 500, 5) if ctx.quick() else (16, 3000, 7)
    for r in pmap(shard, [(ctx.seed * 1000 + i, n, side) for i in range(k)]):
        ctx.stats.merge(r)
    cl = ctx.stats.classes
    tot = max(1, ctx.stats.evaluations)
    ctx.floor("walks with merge+split+move (share)", round(cl["walk-with-all-three-kinds"] / tot, 3), 0.12)
    ctx.floor("boards with a side of 1 (share)", round(cl["board-with-side-1"] / tot, 3), 0.05)
    ctx.floor("initial_blocks that break one bound and were repaired by initial()",
              ctx.stats.classes["initial_blocks-breaking-one-bound-repaired"], 100)
    ctx.floor("share of walks not stopped by the initial() guard",
              round(1 - cl["initial-guard-hit"] / tot, 3), 0.9)


def replay(ctx, rep):
    run_walk(rep["case"])
