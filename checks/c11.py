"""C11 - bundled puzzle solvers agree with the puzzles' published rules.

For every puzzle module an independent rule checker and candidate enumerator (puzzles/*.py,
DESIGN.md Appendix A) decide small generated instances exhaustively: solve_<puzzle> must
report a solution exactly when a rule-obeying grid exists, and every answer cell must be the
value common to all rule-obeying grids (None when they disagree).  Instances where a
"don't-care" candidate (a corner on which published rule sets differ) would matter are skipped
and counted.

Second layer (puzzles/large.py): boards of 16-50 cells that cannot be enumerated.  The rule checker
alone is the oracle: models of the posted program must obey the rules, an independently planted
(or checker-validated) grid must not be lost, and no cell may be decided against such a grid.
"""

import importlib
import json

from puzzles import base
from vlib.harness import Failure, Stats, hyp_search, pmap

LEVEL = "exploration"
SPEC_MODULES = ["puzzles.cells", "puzzles.loops", "puzzles.latin", "puzzles.parts"]
ALL_PUZZLES = ["sudoku", "slitherlink", "masyu", "yajilin", "nurikabe", "heyawake", "akari", "norinori", "lits",
               "star_battle", "fillomino", "nurimisaki", "yinyang", "creek", "gokigen", "aquarium", "building",
               "doppelblock", "putteria", "simpleloop", "geradeweg", "compass", "fivecells", "view", "castle_wall",
               "shakashaka"]


# (shards, cases per shard) of the large-board layer; cases cost 0.1 - 4 s each (7 solver calls)
LARGE_QUICK = {"fillomino": (1, 6), "fivecells": (1, 5), "sudoku": (1, 5), "nurikabe": (1, 6), "view": (1, 6),
               "norinori": (1, 30), "putteria": (2, 10), "lits": (1, 30), "aquarium": (1, 30), "akari": (2, 25),
               "simpleloop": (1, 15), "masyu": (2, 20), "geradeweg": (2, 16), "castle_wall": (1, 14), "slitherlink": (1, 10),
               "yajilin": (1, 12), "compass": (1, 10), "star_battle": (1, 12), "doppelblock": (1, 8), "shakashaka": (1, 10), "creek": (1, 10), "heyawake": (2, 14)}
LARGE_THOROUGH = {"fillomino": (8, 20), "fivecells": (8, 20), "sudoku": (8, 25)}


def load_specs():
    specs = {}
    for m in SPEC_MODULES:
        try:
            mod = importlib.import_module(m)
        except ModuleNotFoundError as e:
            if e.name == m:
                continue
            raise
        for s in mod.SPECS:
            specs[s.name] = s
    return specs


def instance_strategy(spec, max_cells):
    from hypothesis import strategies as st

    @st.composite
    def c(draw):
        return dict(puzzle=spec.name, inst=spec.instance(draw, max_cells))

    return c()


def dims(inst):
    if "n" in inst:
        return inst["n"], inst["n"]
    return inst.get("h"), inst.get("w")


def shard(arg):
    name, seed, n, thorough = arg
    spec = load_specs()[name]
    st = Stats()
    max_cells = spec.max_cells_thorough if thorough else spec.max_cells_quick

    def b(case):
        inst = case["inst"]
        try:
            out = base.run_instance(spec, inst)
        except Failure:
            st.case(canon=case, nontrivial=True, classes=["failed", "puzzle:" + name])
            raise
        h, w = dims(inst)
        cl = ["puzzle:" + name]
        if out["skipped"]:
            cl.append("skipped-dont-care")
            cl.append(name + ":skipped")
        else:
            cl.append(name + (":unsat" if out["n"] == 0 else ":unique" if out["n"] == 1 else ":multi"))
        if h != w:
            cl.append(name + ":non-square")
        for c_ in spec.classes(inst):
            cl.append(name + ":" + c_)
        nt = not out["skipped"]
        st.case(canon=case, nontrivial=nt, classes=cl,
                sample=dict(case, n_valid=out["n"]) if nt and len(json.dumps(case)) < 600 else None)

    hyp_search(st, instance_strategy(spec, max_cells), b, seed=seed, max_examples=n, check="c11." + name)
    return st


def shard_large(arg):
    """second layer (puzzles/large.py): boards of 16..49 cells, rule checker as the only oracle"""
    from puzzles import large

    name, seed, n, thorough = arg
    ls = large.large_specs()[name]
    st = Stats()

    def b(case):
        try:
            out = large.run_large(ls, case)
        except large.SolverBudget:
            # a z3 call ran into its time limit: inconclusive, never a violation
            st.case(canon=case, nontrivial=False, classes=["large", "large:" + name, "large:%s:solver-budget-exceeded" % name])
            return
        except Failure as f:
            if getattr(f, "derived", None) is not None:
                case["derived"] = f.derived
            st.case(canon=case, nontrivial=True, classes=["failed", "large:" + name])
            raise
        cl = {"large", "large:" + name}
        known = False
        for ph in ("phase_a", "phase_b"):
            r = out[ph]
            if r is None:
                continue
            if r["valid"]:
                known = True
                cl.add("large:%s:rule-obeying-grid-known" % name)
            if r["sat"] and not r["valid"]:
                cl.add("large:%s:only-dont-care-models" % name)
            if r["decided"]:
                cl.add("large:%s:decided-cells" % name)
            if r.get("negatives"):
                cl.add("large:%s:rejected-neighbour-grids-probed" % name)
        cl = sorted(cl)
        if case["planted"] is not None:
            cl.append("large:%s:planted" % name)
        if out["phase_b"] is not None:
            cl.append("large:%s:clues-derived-from-a-checked-model" % name)
        inst = case["inst"]
        h, w = dims(inst)
        if h != w:
            cl.append("large:%s:non-square" % name)
        st.case(canon=case, nontrivial=known, classes=cl,
                sample=dict(puzzle=name, layer="large", inst=inst) if known and len(json.dumps(inst)) < 500 else None)

    # model-mode cases cost seconds each: no shrinking in the quick tier (the unshrunk case replays as well)
    import time
    t0 = time.time()
    hyp_search(st, large.case_strategy(ls), b, seed=seed, max_examples=n, check="c11.large." + name,
               shrink=thorough, rounds=2, round_floor=max(4, n // 2))
    st.extra["large_seconds:" + name] = round(st.extra.get("large_seconds:" + name, 0) + time.time() - t0, 1)
    return st


def shard_selftest(arg):
    """the large layer's rule checkers against the small layer's enumerators (harness self-check)"""
    from hypothesis import HealthCheck, given, seed, settings
    from puzzles import large

    name, sd, n = arg
    spec = load_specs()[name]
    ls = large.large_specs()[name]
    tot = [0]

    @seed(sd)
    @settings(max_examples=n, deadline=None, database=None, suppress_health_check=list(HealthCheck))
    @given(instance_strategy(spec, min(spec.max_cells_quick, 12)))
    def t(case):
        tot[0] += large.selftest(ls, spec, case["inst"])

    t()
    return name, tot[0]


def run(ctx):
    specs = load_specs()
    missing = [p for p in ALL_PUZZLES if p not in specs]
    ctx.rule = (
        "per puzzle module: Hypothesis-generated small instances (boards incl. non-square ones; a random "
        "planted marking/loop/grid from which clues are derived, then dropped or perturbed, so that SAT, "
        "multi-solution and UNSAT instances all occur; clues on the border and zero clues included), decided "
        "exhaustively by an independent candidate enumerator + rule checker; compared with solve_<puzzle>'s "
        "is_sat and every answer cell. non-trivial = instance not skipped for a don't-care candidate; "
        "distinct by case hash. Second layer, boards of 16-50 cells (classes large:*): independently planted or "
        "checker-validated grids with derived clues; the first 3 models of the posted program must obey the rules, "
        "a planted grid must itself be a model, grids and clue changes next to it that the checker rejects must not "
        "be models, no decided cell may contradict a rule-obeying grid; non-trivial = a "
        "rule-obeying grid of the instance is known. Puzzles covered: %s. Not covered yet: %s"
        % (", ".join(sorted(specs)), ", ".join(missing) or "none"))
    ctx.assumptions = [
        "the 'published rules' are the transcription in DESIGN.md Appendix A; ambiguous corners are don't-care",
        "default backend of the working tree (z3 offline)",
        "large boards: the rule checker is the only oracle; for puzzles without an independent construction the "
        "planted grid is a model of the solver under test that the checker accepted (one-directional)",
    ]
    ctx.stats.extra["puzzles_covered"] = sorted(specs)
    ctx.stats.extra["puzzles_not_covered"] = missing
    quick = ctx.quick()
    n = 100 if quick else 400
    jobs = []
    for name in sorted(specs):
        k = (getattr(specs[name], "quick_shards", 2) if quick else 6)
        for i in range(k):
            jobs.append((name, ctx.seed * 1000 + i, n, not quick))
    from puzzles import large

    lspecs = large.large_specs()
    ljobs = []
    for name in sorted(lspecs):
        k, ln = (LARGE_QUICK.get(name, (1, 6)) if quick else LARGE_THOROUGH.get(name, (8, 40)))
        for i in range(k):
            ljobs.append((name, ctx.seed * 1000 + 500 + i, ln, not quick))
    # checker self-test first: a checker that disagrees with the enumerator is a harness error (exit 2)
    grids = dict(pmap(shard_selftest, [(name, ctx.seed, 6 if quick else 40) for name in sorted(lspecs)]))
    ctx.stats.extra["large_layer_checker_selftest_grids"] = grids
    for r in pmap(shard, jobs):
        ctx.stats.merge(r)
    for r in pmap(shard_large, ljobs):
        ctx.stats.merge(r)
    cl = ctx.stats.classes
    for name in sorted(lspecs):
        ctx.floor(name + ": large boards with a known rule-obeying grid",
                  cl["large:%s:rule-obeying-grid-known" % name], 1)
    for name in sorted(specs):
        tot = max(1, cl["puzzle:" + name])
        ctx.floor(name + ": instances", cl["puzzle:" + name], 8)
        ctx.floor(name + ": satisfiable instances", cl[name + ":unique"] + cl[name + ":multi"], 2)
        ctx.floor(name + ": unsatisfiable or multi-solution instances", cl[name + ":unsat"] + cl[name + ":multi"], 2)


def replay(ctx, rep):
    case = rep["case"]
    if case.get("layer") == "large":
        from puzzles import large

        try:
            large.run_large(large.large_specs()[case["puzzle"]], case)
        except large.SolverBudget:
            from vlib.harness import HarnessError
            raise HarnessError("inconclusive: a z3 call exceeded its time limit")
        return
    spec = load_specs()[case["puzzle"]]
    base.run_instance(spec, case["inst"])
