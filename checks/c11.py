"""C11 - bundled puzzle solvers agree with the puzzles' published rules.

For every puzzle module an independent rule checker and candidate enumerator (puzzles/*.py,
DESIGN.md Appendix A) decide small generated instances exhaustively: solve_<puzzle> must
report a solution exactly when a rule-obeying grid exists, and every answer cell must be the
value common to all rule-obeying grids (None when they disagree).  Instances where a
"don't-care" candidate (a corner on which published rule sets differ) would matter are skipped
and counted.
"""

import importlib
import json

from puzzles import base
from vlib.harness import Failure, Stats, hyp_search, pmap

LEVEL = "exploration"
SPEC_MODULES = ["puzzles.cells", "puzzles.loops", "puzzles.latin", "puzzles.parts"]
ALL_PUZZLES = ["sudoku", "slitherlink", "masyu", "yajilin", "nurikabe", "heyawake", "akari", "norinori", "lits",
               "star_battle", "fillomino", "nurimisaki", "yinyang", "creek", "gokigen", "aquarium", "building",
               "doppelblock", "putteria", "simpleloop", "geradeweg", "compass", "fivecells", "view", "castle_wall",
               "shakashaka"]


def load_specs():
    specs = {}
    for m in SPEC_MODULES:
        try:
            mod = importlib.import_module(m)
        except ModuleNotFoundError as e:
            if e.name == m:
                continue
            raise
        for s in mod.SPECS:
            specs[s.name] = s
    return specs


def instance_strategy(spec, max_cells):
    from hypothesis import strategies as st

    @st.composite
    def c(draw):
        return dict(puzzle=spec.name, inst=spec.instance(draw, max_cells))

    return c()


def dims(inst):
    if "n" in inst:
        return inst["n"], inst["n"]
    return inst.get("h"), inst.get("w")


def shard(arg):
    name, seed, n, thorough = arg
    spec = load_specs()[name]
    st = Stats()
    max_cells = spec.max_cells_thorough if thorough else spec.max_cells_quick

    def b(case):
        inst = case["inst"]
        try:
            out = base.run_instance(spec, inst)
        except Failure:
            st.case(canon=case, nontrivial=True, classes=["failed", "puzzle:" + name])
            raise
        h, w = dims(inst)
        cl = ["puzzle:" + name]
        if out["skipped"]:
            cl.append("skipped-dont-care")
            cl.append(name + ":skipped")
        else:
            cl.append(name + (":unsat" if out["n"] == 0 else ":unique" if out["n"] == 1 else ":multi"))
        if h != w:
            cl.append(name + ":non-square")
        for c_ in spec.classes(inst):
            cl.append(name + ":" + c_)
        nt = not out["skipped"]
        st.case(canon=case, nontrivial=nt, classes=cl,
                sample=dict(case, n_valid=out["n"]) if nt and len(json.dumps(case)) < 600 else None)

    hyp_search(st, instance_strategy(spec, max_cells), b, seed=seed, max_examples=n, check="c11." + name)
    return st


def run(ctx):
    specs = load_specs()
    missing = [p for p in ALL_PUZZLES if p not in specs]
    ctx.rule = (
        "per puzzle module: Hypothesis-generated small instances (boards incl. non-square ones; a random "
        "planted marking/loop/grid from which clues are derived, then dropped or perturbed, so that SAT, "
        "multi-solution and UNSAT instances all occur; clues on the border and zero clues included), decided "
        "exhaustively by an independent candidate enumerator + rule checker; compared with solve_<puzzle>'s "
        "is_sat and every answer cell. non-trivial = instance not skipped for a don't-care candidate; "
        "distinct by case hash. Puzzles covered: %s. Not covered yet: %s"
        % (", ".join(sorted(specs)), ", ".join(missing) or "none"))
    ctx.assumptions = [
        "the 'published rules' are the transcription in DESIGN.md Appendix A; ambiguous corners are don't-care",
        "default backend of the working tree (z3 offline)",
    ]
    ctx.stats.extra["puzzles_covered"] = sorted(specs)
    ctx.stats.extra["puzzles_not_covered"] = missing
    quick = ctx.quick()
    n = 100 if quick else 400
    jobs = []
    for name in sorted(specs):
        k = (getattr(specs[name], "quick_shards", 2) if quick else 6)
        for i in range(k):
            jobs.append((name, ctx.seed * 1000 + i, n, not quick))
    for r in pmap(shard, jobs):
        ctx.stats.merge(r)
    cl = ctx.stats.classes
    for name in sorted(specs):
        tot = max(1, cl["puzzle:" + name])
        ctx.floor(name + ": instances", cl["puzzle:" + name], 8)
        ctx.floor(name + ": satisfiable instances", cl[name + ":unique"] + cl[name + ":multi"], 2)
        ctx.floor(name + ": unsatisfiable or multi-solution instances", cl[name + ":unsat"] + cl[name + ":multi"], 2)


def replay(ctx, rep):
    case = rep["case"]
    spec = load_specs()[case["puzzle"]]
    base.run_instance(spec, case["inst"])
