"""C01 - find_answer decides satisfiability and leaves a genuine model in .sol.

Oracle: direct evaluation of the *recipe* (the expression as written in the DSL) under the
ordinary meaning of the operators; brute-force enumeration of the declared domains when the
solver says UNSAT; planted models / planted contradictions for wide domains.
"""

import itertools

from vlib import gen_expr as G
from vlib.harness import Failure, HarnessError, Stats, hyp_search, pmap, repo_frame_sig

LEVEL = "exploration"
BACKEND = None  # default backend of the working tree (z3 offline)


# ------------------------------------------------------------------ running programs
class Session:
    def __init__(self):
        from cspuz import Solver

        self.solver = Solver()
        self.V = G.Vars()
        self.decls = []  # ("b",) / ("i", lo, hi) in declaration order per Solver.variables
        self.order = []  # ("b", k) / ("i", k): position of each Solver variable in V
        self.constraints = []

    def declare(self, d):
        if d[0] == "b":
            self.V.b.append(self.solver.bool_var())
            self.order.append(("b", len(self.V.b) - 1))
        else:
            self.V.i.append(self.solver.int_var(d[1], d[2]))
            self.order.append(("i", len(self.V.i) - 1))
        self.decls.append(list(d))

    def declare_array(self, step):
        if step[0] == "bool_array":
            arr = self.solver.bool_array(step[1])
            for v in arr:
                self.V.b.append(v)
                self.order.append(("b", len(self.V.b) - 1))
                self.decls.append(["b"])
        else:
            arr = self.solver.int_array(step[1], step[2], step[3])
            for v in arr:
                self.V.i.append(v)
                self.order.append(("i", len(self.V.i) - 1))
                self.decls.append(["i", step[2], step[3]])

    def ensure(self, recipe):
        self.solver.ensure(G.build(recipe, self.V))
        self.constraints.append(recipe)

    def domains(self):
        bd = [(False, True)] * len(self.V.b)
        idom = [range(v.lo, v.hi + 1) for v in self.V.i]
        return bd, idom

    def product(self):
        p = 2 ** len(self.V.b)
        for v in self.V.i:
            p *= v.hi - v.lo + 1
        return p

    def exists_model(self):
        bd, idom = self.domains()
        nb = len(bd)
        for vals in itertools.product(*(list(bd) + idom)):
            B = vals[:nb]
            I = vals[nb:]
            if all(G.rev(c, B, I) for c in self.constraints):
                return list(B), list(I)
        return None

    def check_solve(self, expect=None, enumerate_ok=True, backend=None):
        """find_answer + oracle.  expect: None (decide by enumeration), True, False."""
        for v in self.solver.variables:
            v.sol = None
        try:
            res = self.solver.find_answer(backend if backend is not None else BACKEND)
        except Exception as e:
            raise Failure("exception|" + repo_frame_sig(e),
                          observed="%s: %s" % (type(e).__name__, str(e)[:200]),
                          expected="find_answer returns a bool")
        if res is not True and res is not False:
            raise Failure("find_answer-not-bool", observed=repr(res))
        if res:
            B = [v.sol for v in self.V.b]
            I = [v.sol for v in self.V.i]
            for v in self.V.b:
                if not isinstance(v.sol, bool):
                    raise Failure("sol-type-bool", observed=repr(v.sol), expected="Python bool")
            for v in self.V.i:
                if isinstance(v.sol, bool) or not isinstance(v.sol, int):
                    raise Failure("sol-type-int", observed=repr(v.sol), expected="Python int")
                if not v.lo <= v.sol <= v.hi:
                    raise Failure("sol-out-of-bounds", observed=[v.sol, v.lo, v.hi])
            for k, c in enumerate(self.constraints):
                if not G.rev(c, B, I):
                    raise Failure("model-violates-constraint", observed=dict(B=B, I=I, constraint=k),
                                  expected="every posted constraint true under sol")
            if expect is False:
                raise Failure("said-sat-on-planted-unsat", observed=dict(B=B, I=I))
            return True
        else:
            if expect is True:
                raise Failure("said-unsat-on-planted-sat", observed=False, expected=True)
            if expect is None and enumerate_ok:
                m = self.exists_model()
                if m is not None:
                    raise Failure("said-unsat-but-satisfiable", observed=False,
                                  expected=dict(B=m[0], I=m[1]))
            return False


def subrecipes(r, heads, acc=None):
    """all sub-recipes of r whose head is in `heads`"""
    if acc is None:
        acc = []
    if isinstance(r, list):
        if r and r[0] in heads:
            acc.append(r)
        for x in r[1:]:
            if isinstance(x, list):
                subrecipes(x, heads, acc)
    return acc


def run_program(case, backend=None):
    s = Session()
    if case.get("share"):
        s.V.pool = {}   # equal sub-recipes become one shared object; binary operators in augmented form
    if case["class"] == "history":
        solves = 0
        for step in case["steps"]:
            k = step[0]
            if k == "bool_var":
                s.declare(["b"])
            elif k == "int_var":
                s.declare(["i", step[1], step[2]])
            elif k in ("bool_array", "int_array"):
                s.declare_array(step)
            elif k == "ensure":
                s.ensure(step[1])
            elif k == "find_answer":
                s.check_solve(backend=backend)
                solves += 1
        return solves
    for d in case["decls"]:
        s.declare(d)
    for c in case["constraints"]:
        s.ensure(c)
    expect = {"enum": None, "sat_wide": True, "unsat_wide": False}[case["class"]]
    return s.check_solve(expect=expect, backend=backend)


# ------------------------------------------------------------------ generators
def program_strategy():
    from hypothesis import strategies as st

    S = G.strategies()

    def capped_decls(draw, cap, lo_n=1, hi_n=6):
        n = draw(st.integers(lo_n, hi_n))
        decls = []
        prod = 1
        for _ in range(n):
            d = draw(S["decl"]("enum"))
            size = 2 if d[0] == "b" else d[2] - d[1] + 1
            if prod * size > cap:
                d = ["i", d[1], d[1]] if d[0] == "i" else ["b"]
                size = 2 if d[0] == "b" else 1
                if prod * size > cap:
                    break
            prod *= size
            decls.append(d)
        return decls

    @st.composite
    def enum_program(draw):
        decls = capped_decls(draw, 6000)
        nb = sum(1 for d in decls if d[0] == "b")
        ni = len(decls) - nb
        nc = draw(st.integers(1, 6))
        pool = [v for d in decls if d[0] == "i" for v in (d[1], d[2])]
        lits = st.integers(-4, 6)
        if pool and max(abs(v) for v in pool) > 8:
            # literals near the (far from zero) domains so that comparisons are not all trivial
            lits = st.one_of(lits, st.builds(lambda v, dv: v + dv, st.sampled_from(pool), st.integers(-1, 1)))
        cons = [draw(S["bool_recipe"](nb, ni, 3, lits)) for _ in range(nc)]
        share = draw(st.integers(0, 2)) == 0
        if share:
            # later constraints that extend a sum / conjunction which an earlier constraint already contains
            # (`total = x + y; ensure(total == 5); total += z; ensure(total == 8)` in user code)
            for _ in range(draw(st.integers(1, 3))):
                ints = [e for c in cons for e in subrecipes(c, ("add", "sub"))]
                bools = [e for c in cons for e in subrecipes(c, ("and", "or", "xor"))]
                if ints and (not bools or draw(st.booleans())):
                    e = ints[draw(st.integers(0, len(ints) - 1))]
                    t = ["ivar", draw(st.integers(0, ni - 1))] if ni and draw(st.booleans()) else ["ilit", draw(lits)]
                    u = ["ivar", draw(st.integers(0, ni - 1))] if ni and draw(st.booleans()) else ["ilit", draw(lits)]
                    cons.append([draw(st.sampled_from(["eq", "ne", "le", "ge"])),
                                 [draw(st.sampled_from(["add", "sub"])), e, t], u])
                elif bools:
                    e = bools[draw(st.integers(0, len(bools) - 1))]
                    t = ["bvar", draw(st.integers(0, nb - 1))] if nb else ["blit", draw(st.booleans())]
                    cons.append([draw(st.sampled_from(["and", "or", "xor"])), e, t])
        return dict(**{"class": "enum"}, decls=decls, constraints=cons, share=share)

    @st.composite
    def sat_wide(draw):
        n = draw(st.integers(1, 6))
        decls = [draw(S["decl"]("wide")) for _ in range(n)]
        B, I = [], []
        for d in decls:
            if d[0] == "b":
                B.append(draw(st.booleans()))
            else:
                I.append(draw(st.one_of(st.integers(d[1], d[2]), st.just(d[1]), st.just(d[2]))))
        pool = I + [0, 1, -1]
        lits = st.builds(lambda a, b: a + b, st.sampled_from(pool), st.integers(-2, 2))
        nc = draw(st.integers(1, 6))
        cons = []
        for _ in range(nc):
            r = draw(S["bool_recipe"](len(B), len(I), 3, lits))
            if not G.rev(r, B, I):
                r = G.negate(r) if draw(st.booleans()) else ["not", r]
            cons.append(r)
        return dict(**{"class": "sat_wide"}, decls=decls, constraints=cons, planted=dict(B=B, I=I))

    @st.composite
    def unsat_wide(draw):
        n = draw(st.integers(1, 5))
        decls = [draw(S["decl"]("wide")) for _ in range(n)]
        nb = sum(1 for d in decls if d[0] == "b")
        ni = len(decls) - nb
        lits = st.one_of(st.integers(-4, 6), st.integers(-10**6, 10**6))
        phi = draw(S["bool_recipe"](nb, ni, 3, lits))
        extra = [draw(S["bool_recipe"](nb, ni, 2, lits)) for _ in range(draw(st.integers(0, 3)))]
        cons = extra + [phi, G.negate(phi)]
        perm = draw(st.permutations(list(range(len(cons)))))
        return dict(**{"class": "unsat_wide"}, decls=decls, constraints=[cons[i] for i in perm])

    @st.composite
    def history(draw):
        steps = []
        nb = ni = 0
        prod = 1
        nsteps = draw(st.integers(3, 12))
        for _ in range(nsteps):
            kinds = ["bool_var", "int_var", "bool_array", "int_array"]
            if nb + ni:
                kinds += ["ensure"] * 5 + ["find_answer"] * 3
            k = draw(st.sampled_from(kinds))
            if k == "bool_var":
                if prod * 2 > 3000:
                    continue
                steps.append(["bool_var"])
                nb += 1
                prod *= 2
            elif k == "int_var":
                lo = draw(st.integers(-3, 3))
                w = draw(st.integers(0, 3))
                if prod * (w + 1) > 3000:
                    w = 0
                steps.append(["int_var", lo, lo + w])
                ni += 1
                prod *= w + 1
            elif k == "bool_array":
                n = draw(st.integers(0, 3))
                if prod * 2 ** n > 3000:
                    continue
                steps.append(["bool_array", n])
                nb += n
                prod *= 2 ** n
            elif k == "int_array":
                n = draw(st.integers(0, 2))
                lo = draw(st.integers(-2, 2))
                w = draw(st.integers(0, 2))
                if prod * (w + 1) ** n > 3000:
                    continue
                steps.append(["int_array", n, lo, lo + w])
                ni += n
                prod *= (w + 1) ** n
            elif k == "ensure":
                steps.append(["ensure", draw(S["bool_recipe"](nb, ni, 2))])
            else:
                steps.append(["find_answer"])
        steps.append(["find_answer"])
        return dict(**{"class": "history"}, steps=steps)

    return dict(enum=enum_program(), sat_wide=sat_wide(), unsat_wide=unsat_wide(),
                history=history())


def classify(case, result):
    cl = [case["class"]]
    if case["class"] == "history":
        cons = [s[1] for s in case["steps"] if s[0] == "ensure"]
        ks = [s[0] for s in case["steps"]]
        # >= 2 solves separated by a declaration
        seen_solve = False
        decl_after = False
        multi = False
        for k in ks:
            if k == "find_answer":
                if seen_solve and decl_after:
                    multi = True
                seen_solve = True
                decl_after = False
            elif k in ("bool_var", "int_var", "bool_array", "int_array") and seen_solve:
                decl_after = True
        if multi:
            cl.append("history:solve-declare-solve")
    else:
        cons = case["constraints"]
        if case["class"] == "enum":
            cl.append("enum:sat" if result else "enum:unsat")
    ops = set()
    for c in cons:
        G.ops_of(c, ops)
    if any(G.has_const_aggregate(c) for c in cons):
        cl.append("has-const-or-empty-aggregate")
    for o in ops:
        cl.append("op:" + o)
    nontrivial = len(ops - {"bvar", "ivar", "blit", "ilit"}) >= 2 and bool(ops & {"bvar", "ivar"})
    return cl, nontrivial


def shard(arg):
    seed, n_by_class = arg
    st = Stats()
    strat = program_strategy()
    for cls, n in n_by_class.items():
        if n <= 0:
            continue

        def body(case):
            try:
                res = run_program(case)
            except Failure:
                cl, nt = classify(case, None)
                st.case(canon=case, nontrivial=nt, classes=cl)
                raise
            cl, nt = classify(case, res)
            st.case(canon=case, nontrivial=nt, classes=cl, sample=case if nt else None)

        hyp_search(st, strat[cls], body, seed=seed, max_examples=n, check="c01." + cls)
    return st


RULE = (
    "Hypothesis-generated programs written through the public DSL (typed recursive recipes over every "
    "operator, Python literals on either side, n-ary / empty / constant-only aggregates); classes: "
    "enumerable (oracle = brute force over the declared domains when the solver says UNSAT, model check "
    "when SAT), planted-SAT wide domains, planted-UNSAT wide domains (phi and its structural negation), "
    "and declare/ensure/find_answer histories checked at every solve. non-trivial = program mentions a "
    "variable and >= 2 distinct operators; distinct by hash of the program"
)


def giveup_case(case):
    """injected fault: z3 is made to give up (global timeout of 1 ms, resource limit of 50 units) on a
    program that is satisfiable by construction (a Latin square with givens and 2x2 sums read off a planted
    grid).  find_answer may then fail loudly or still find a model; it must never report `no answer`."""
    import z3
    from cspuz import Solver
    from cspuz.constraints import alldifferent

    n, g = case["n"], case["grid"]
    s = Solver()
    x = s.int_array((n, n), 1, n)
    for i in range(n):
        s.ensure(alldifferent(x[i, :]))
        s.ensure(alldifferent(x[:, i]))
    for (i, j) in case["given"]:
        s.ensure(x[i, j] == g[i][j])
    for (i, j) in case["cages"]:
        s.ensure(x[i, j] + x[i + 1, j] + x[i, j + 1] + x[i + 1, j + 1] == g[i][j] + g[i + 1][j] + g[i][j + 1] + g[i + 1][j + 1])
    z3.set_param("timeout", 1)
    z3.set_param("rlimit", 50)
    try:
        try:
            res = s.find_answer(backend="z3")
        except Exception as e:
            return "raises:" + type(e).__name__
    finally:
        z3.set_param("timeout", 4294967295)
        z3.set_param("rlimit", 0)
    if res is False:
        raise Failure("said-unsat-on-planted-sat|solver-gave-up", observed=False,
                      expected="True with a model, or an exception: the program has a model")
    if res is not True:
        raise Failure("find_answer-not-bool", observed=repr(res))
    a = [[x[i, j].sol for j in range(n)] for i in range(n)]
    full = list(range(1, n + 1))
    ok = all(sorted(r) == full for r in a) and all(sorted(a[i][j] for i in range(n)) == full for j in range(n)) and \
        all(a[i][j] == g[i][j] for (i, j) in case["given"]) and \
        all(a[i][j] + a[i + 1][j] + a[i][j + 1] + a[i + 1][j + 1] ==
            g[i][j] + g[i + 1][j] + g[i][j + 1] + g[i + 1][j + 1] for (i, j) in case["cages"])
    if not ok:
        raise Failure("model-violates-constraint|solver-gave-up", observed=a)
    return "model"


def shard_giveup(arg):
    from hypothesis import strategies as st

    seed, n_cases = arg
    stats = Stats()

    @st.composite
    def c(draw):
        n = draw(st.integers(6, 8))
        rows = draw(st.permutations(list(range(n))))
        cols = draw(st.permutations(list(range(n))))
        sym = draw(st.permutations(list(range(1, n + 1))))
        g = [[sym[(rows[i] + cols[j]) % n] for j in range(n)] for i in range(n)]
        cells = [(i, j) for i in range(n) for j in range(n)]
        given = [list(c_) for c_ in cells if draw(st.integers(0, 9)) == 0]
        cages = [list(c_) for c_ in cells if c_[0] + 1 < n and c_[1] + 1 < n and draw(st.integers(0, 3)) == 0]
        return dict(n=n, grid=g, given=given, cages=cages)

    def b(case):
        out = giveup_case(case)
        stats.case(canon=case, nontrivial=out.startswith("raises"),
                   classes=["solver-gave-up", "solver-gave-up:" + out], sample=None)

    hyp_search(stats, c(), b, seed=seed, max_examples=n_cases, check="c01.giveup", rounds=2, shrink=False,
               round_floor=4)
    return stats


def run(ctx):
    ctx.rule = RULE
    ctx.assumptions = [
        "only well-typed trees built through the public DSL are posted; 1-ary SUB is never generated",
        "z3 'unknown' cannot occur on these linear programs; it is provoked deliberately in the give-up family "
        "(global z3 timeout of 1 ms), where an exception is accepted and `False` is not",
        "planted-UNSAT relies on vlib.gen_expr.negate being a correct negation (self-tested by C12/C01 enum class)",
    ]
    if ctx.quick():
        shards = [(ctx.seed * 1000 + i, dict(enum=300, sat_wide=100, unsat_wide=70, history=80))
                  for i in range(16)]
    else:
        shards = [(ctx.seed * 1000 + i, dict(enum=4000, sat_wide=1200, unsat_wide=800, history=700))
                  for i in range(16)]
    for r in pmap(shard, shards):
        ctx.stats.merge(r)
    for r in pmap(shard_giveup, [(ctx.seed * 1000 + 600 + i, 10 if ctx.quick() else 120) for i in range(4)]):
        ctx.stats.merge(r)
    cl = ctx.stats.classes
    ctx.floor("planted programs on which z3 was made to give up", cl["solver-gave-up"], 30)
    enum_n = max(1, cl["enum:sat"] + cl["enum:unsat"])
    ctx.floor("UNSAT share among enumerable programs", round(cl["enum:unsat"] / enum_n, 3), 0.15)
    ctx.floor("programs with a constant-only or empty aggregate",
              round(cl["has-const-or-empty-aggregate"] / max(1, ctx.stats.evaluations), 3), 0.06)
    ctx.floor("histories with solve/declare/solve",
              round(cl["history:solve-declare-solve"] / max(1, cl["history"]), 3), 0.30)
    allops = ["not", "and", "or", "xor", "iff", "neq", "imp", "eq", "ne", "le", "lt", "ge", "gt",
              "alldiff", "fold_and", "fold_or", "neg", "add", "sub", "cond", "count_true", "sum",
              "nsub", "nadd"]
    ctx.floor("min occurrences of any operator", min(cl["op:" + o] for o in allops), 20)


def replay(ctx, rep):
    if rep.get("check") == "c01.giveup":
        giveup_case(rep["case"])
        return
    run_program(rep["case"])
