"""C07 - variable-group division (with/without borders) admits exactly valid partitions.

Grouped form: for every set partition of the vertices the relation 'equal ids exactly within a
block' is imposed on the returned group ids and decided by the independent RefSolver; SAT iff
every block is connected and every vertex with a specified size lies in a block of that size.
Border form: every one of the 2^m border patterns is decided; SAT iff the components after
cutting satisfy the sizes and no border edge lies inside a component.  Both with the rank
encoding and the native graph-division atom (border form).
"""

import hashlib
import itertools

from checks import c04
from vlib import encq, fakesolver, graphref, refsem
from vlib.harness import Failure, Stats, hyp_search, pmap, repo_frame_sig

LEVEL = "exploration"


def derive(seed, *key):
    h = hashlib.blake2b(repr((seed,) + key).encode(), digest_size=8).digest()
    return int.from_bytes(h, "big")


# size specification (plain data):
#   None | ["const", c] | ["shared", lo, hi] | ["list", [int|None ...]] | ["array", [int ...]]
def build_sizes(spec, solver, n, grid=None):
    """-> (argument for cspuz, ids of helper variables)"""
    from cspuz.array import IntArray1D, IntArray2D

    if spec is None:
        return None
    t = spec[0]
    if t == "const":
        return spec[1]
    if t == "shared":
        return solver.int_var(spec[1], spec[2])
    if t == "list":
        if grid:
            h, w = grid
            return [spec[1][y * w:(y + 1) * w] for y in range(h)]
        return list(spec[1])
    if t == "array":
        vs = solver.int_array(n, 1, max(1, n))
        for v, c in zip(vs, spec[1]):
            solver.ensure(v == c)
        if grid:
            return IntArray2D(list(vs), tuple(grid))
        return IntArray1D(list(vs))
    raise ValueError(spec)


def sizes_ok_grouped(spec, n, edges, labels):
    """reference for the grouped form"""
    cnt = {}
    for x in labels:
        cnt[x] = cnt.get(x, 0) + 1
    for lab in cnt:
        if graphref.components(n, edges, [x == lab for x in labels])[1] != 1:
            return False
    if spec is None:
        return True
    t = spec[0]
    if t == "const":
        return all(c == spec[1] for c in cnt.values())
    if t == "shared":
        vals = set(cnt.values())
        return len(vals) == 1 and spec[1] <= next(iter(vals)) <= spec[2]
    sizes = spec[1]
    return all(sizes[v] is None or cnt[labels[v]] == sizes[v] for v in range(n))


def tag(case):
    return "%s|%s|%s|sizes=%s" % (case["form"], "native" if case.get("native") else "rank",
                                  "grid" if "grid" in case else "graph",
                                  "none" if case["sizes"] is None else case["sizes"][0])


# ------------------------------------------------------------------ grouped form
def grouped_case(case, st):
    from cspuz import Solver, graph

    n, edges = c04.spec_of(case)
    s = Solver()
    try:
        gs = build_sizes(case["sizes"], s, n, case.get("grid"))
        if "grid" in case:
            if case["sizes"] is not None and case["sizes"][0] in ("list", "array") and case.get("infer_shape"):
                gid = graph.division_connected_variable_groups(s, group_size=gs)
            else:
                gid = graph.division_connected_variable_groups(s, shape=tuple(case["grid"]), group_size=gs)
            from cspuz.array import IntArray2D
            if not isinstance(gid, IntArray2D) or tuple(gid.shape) != tuple(case["grid"]):
                raise Failure("returned-ids-shape|" + tag(case), observed=type(gid).__name__)
            ids = [v.id for v in gid.data]
        else:
            gid = graph.division_connected_variable_groups(s, graph=c04.make_graph(n, edges), group_size=gs)
            ids = [v.id for v in gid]
        if len(ids) != n:
            raise Failure("returned-ids-length|" + tag(case), observed=len(ids), expected=n)
    except Failure as f:
        st.fail(f, case, "c07.grouped")
        return
    except Exception as e:
        st.fail(Failure("posting-raises|%s|%s" % (tag(case), repo_frame_sig(e)), observed=str(e)[:150]),
                case, "c07.grouped")
        return
    q = encq.Query(s)
    for labels in graphref.set_partitions(n):
        ass = []
        for u in range(n):
            for v in range(u + 1, n):
                ass.append(("EQ" if labels[u] == labels[v] else "NE", ("i", ids[u]), ("i", ids[v])))
        got = q.rs.sat(ass)
        want = sizes_ok_grouped(case["sizes"], n, edges, labels)
        blocks = graphref.partition_blocks(n, labels)
        nt = len(blocks) >= 2 and max(map(len, blocks)) >= 2 and case["sizes"] is not None
        conn = sizes_ok_grouped(None, n, edges, labels)
        cl = ["grouped", "grouped:" + ("none" if case["sizes"] is None else case["sizes"][0])]
        if conn and not want:
            cl.append("unsat-because-of-size-only")
        if case["sizes"] is not None and case["sizes"][0] == "list" and None in case["sizes"][1]:
            cl.append("sizes-with-holes")
        sub = dict(case, partition=labels)
        st.case(nontrivial=nt, counted=True, classes=cl, sample=sub if nt else None)
        if got != want:
            st.fail(Failure(("admits-invalid|" if got else "rejects-valid|") + tag(case),
                            observed=got, expected=want), sub, "c07.grouped")


def winding_case(case, cache=None):
    """grouped form on grids beyond the exhaustive scope: one block is a long winding shape"""
    from cspuz import Solver, graph

    h, w = case["grid"]
    n = h * w
    key = (h, w, repr(case["sizes"]))
    if cache is not None and key in cache:
        q, ids = cache[key]
    else:
        s = Solver()
        gs = build_sizes(case["sizes"], s, n, case["grid"])
        gid = graph.division_connected_variable_groups(s, shape=(h, w), group_size=gs)
        ids = [v.id for v in gid.data]
        q = encq.Query(s)
        if cache is not None:
            cache[key] = (q, ids)
    labels = case["partition"]
    edges = graphref.grid_edges(h, w)
    ass = []
    for (u, v) in edges:
        ass.append(("EQ" if labels[u] == labels[v] else "NE", ("i", ids[u]), ("i", ids[v])))
    # cells of one block are connected through edges inside the block only if the block is connected, so the
    # edge relations above determine the partition into connected pieces; equal labels of non-adjacent
    # cells are asserted along one representative per label
    rep = {}
    for u in range(n):
        if labels[u] in rep:
            ass.append(("EQ", ("i", ids[rep[labels[u]]]), ("i", ids[u])))
        else:
            rep[labels[u]] = u
    reps = sorted(rep.values())
    for i in range(len(reps)):
        for j in range(i + 1, len(reps)):
            ass.append(("NE", ("i", ids[reps[i]]), ("i", ids[reps[j]])))
    got = q.rs.sat(ass)
    want = sizes_ok_grouped(case["sizes"], n, edges, labels)
    if got != want:
        raise Failure(("admits-invalid|" if got else "rejects-valid|") + tag(case) + "|winding",
                      observed=got, expected=want, detail=dict(grid=[h, w], shape=case.get("shape")))
    return want


def shard_winding(arg):
    seed, shape, n = arg
    st = Stats()
    from hypothesis import strategies as hs
    from checks import c05
    from vlib import winding

    h, w = shape
    cache = {}

    @hs.composite
    def c(draw):
        name, cells = winding.shapes(draw, hs, h, w)
        labels, k = c05.winding_labels(h, w, cells)
        mode = draw(hs.integers(0, 3))
        if mode == 1 and len(cells) >= 3:
            y, x = cells[draw(hs.integers(1, len(cells) - 2))]
            labels[y * w + x] = k           # the shape is cut in the middle: its block is no longer connected
        sizes = None
        if draw(hs.booleans()):
            cnt = {}
            for v in labels:
                cnt[v] = cnt.get(v, 0) + 1
            lst = [cnt[labels[i]] if draw(hs.integers(0, 4)) == 0 else None for i in range(h * w)]
            if draw(hs.integers(0, 5)) == 0:
                i = draw(hs.integers(0, h * w - 1))
                lst[i] = cnt[labels[i]] + 1   # a wrong size
            sizes = ["list", lst]
        return dict(grid=[h, w], form="grouped", sizes=sizes, shape=name, partition=labels)

    def body(case):
        want = winding_case(case, cache)
        st.case(canon=case, nontrivial=True,
                classes=["winding", "winding:" + case["shape"], "winding:" + ("valid" if want else "invalid")],
                sample=case)

    hyp_search(st, c(), body, seed=seed, max_examples=n, check="c07.winding", rounds=2)
    return st


# ------------------------------------------------------------------ border form
def border_case(case, st):
    from cspuz import Solver, graph
    from cspuz.grid_frame import BoolInnerGridFrame

    n, edges = c04.spec_of(case)
    s = Solver()
    spec = case["sizes"]
    sizes = [None] * n if spec is None else list(spec[1])
    try:
        if case.get("frame"):
            h, w = case["grid"]
            fr = BoolInnerGridFrame(s, h, w)
            gs = build_sizes(["array", sizes], s, n, case["grid"])
            graph.division_connected_variable_groups_with_borders(
                s, group_size=gs, is_border=fr, use_graph_primitive=case["native"])
            # geometry of the inner frame: vertical[y,x] between (y,x),(y,x+1); horizontal[y,x]
            # between (y,x),(y+1,x)
            bvar = {}
            for y in range(h):
                for x in range(w - 1):
                    bvar[(y * w + x, y * w + x + 1)] = fr.vertical[y, x].id
            for y in range(h - 1):
                for x in range(w):
                    bvar[(y * w + x, (y + 1) * w + x)] = fr.horizontal[y, x].id
            bids = [bvar[tuple(sorted(e))] for e in edges]
        else:
            gs = build_sizes(spec, s, n)
            flags = s.bool_array(len(edges))
            graph.division_connected_variable_groups_with_borders(
                s, group_size=gs, is_border=flags if case.get("border_array", True) else list(flags),
                graph=c04.make_graph(n, edges), use_graph_primitive=case["native"])
            bids = [v.id for v in flags]
    except Exception as e:
        st.fail(Failure("posting-raises|%s|%s" % (tag(case), repo_frame_sig(e)), observed=str(e)[:150]),
                case, "c07.border")
        return
    q = encq.Query(s)
    for pat in graphref.patterns(len(edges)):
        want = graphref.borders_valid(n, edges, pat, sizes)
        try:
            got = q.admits(bids, pat)
        except refsem.MalformedAtom as e:
            st.fail(Failure("native-atom-malformed|" + tag(case), observed=str(e)), case, "c07.border")
            return
        kept = [e for e, b in zip(edges, pat) if not b]
        label, c = graphref.components(n, kept)
        redundant = any(b and label[u] == label[v] for (u, v), b in zip(edges, pat))
        cnt = [label.count(x) for x in range(c)]
        nt = c >= 2 and max(cnt) >= 2 and any(x is not None for x in sizes)
        cl = ["border", "border:" + ("native" if case["native"] else "rank")]
        if redundant:
            cl.append("redundant-border")
        if not redundant and not want:
            cl.append("unsat-because-of-size-only")
        if None in sizes and any(x is not None for x in sizes):
            cl.append("sizes-with-holes")
        sub = dict(case, borders=[int(x) for x in pat])
        st.case(nontrivial=nt, counted=True, classes=cl, sample=sub if nt else None)
        if got != want:
            sig = ("admits-invalid|" if got else "rejects-valid|") + tag(case) + ("|redundant-border" if redundant else "")
            st.fail(Failure(sig, observed=got, expected=want), sub, "c07.border")


def e2e_border(case):
    """pattern pinned, find_answer (z3 / cspuz_core stand-in for the native atom)"""
    from cspuz import Solver, graph

    n, edges = c04.spec_of(case)
    spec = case["sizes"]
    sizes = [None] * n if spec is None else list(spec[1])
    pat = [bool(x) for x in case["borders"]]
    s = Solver()
    flags = s.bool_array(len(edges))
    for v, p in zip(flags, pat):
        s.ensure(v if p else ~v)
    try:
        gs = build_sizes(spec, s, n)
        graph.division_connected_variable_groups_with_borders(
            s, group_size=gs, is_border=flags, graph=c04.make_graph(n, edges),
            use_graph_primitive=case["native"])
        if case["native"]:
            with fakesolver.installed():
                res = s.find_answer(backend="cspuz_core")
            del fakesolver.CALLS[:]
        else:
            res = s.find_answer()
    except Exception as e:
        raise Failure("e2e-raises|%s|%s" % (tag(case), repo_frame_sig(e)), observed=str(e)[:150])
    want = graphref.borders_valid(n, edges, pat, sizes)
    if res != want:
        raise Failure(("e2e-admits-invalid|" if res else "e2e-rejects-valid|") + tag(case),
                      observed=res, expected=want)


# ------------------------------------------------------------------ case construction
def size_specs(seed, key, n, edges, border):
    """a handful of size specifications for one graph, derived deterministically; half of them
    are read off a derived target partition so that satisfiable cases are common"""
    parts = list(graphref.set_partitions(n))
    good = [p for p in parts if sizes_ok_grouped(None, n, edges, p)]
    out = [None]
    r = derive(seed, key, "t")
    target = good[r % len(good)]
    cnt = {x: target.count(x) for x in set(target)}
    full = [cnt[target[v]] for v in range(n)]
    holes = [full[v] if (derive(seed, key, "h", v) % 3) else None for v in range(n)]
    pert = list(holes)
    v = derive(seed, key, "p") % n
    pert[v] = (full[v] % n) + 1
    out.append(["list", holes])
    out.append(["list", pert])
    out.append(["list", full])
    if not border:
        out.append(["const", 1 + derive(seed, key, "c") % max(1, min(n, 3))])
        lo = 1 + derive(seed, key, "lo") % n
        out.append(["shared", lo, min(n, lo + derive(seed, key, "w") % 2)])
        out.append(["array", full if derive(seed, key, "a") % 2 else [x if x else 1 for x in pert]])
    return out


def shard(arg):
    kind, cases = arg
    st = Stats()
    for c in cases:
        (grouped_case if kind == "grouped" else border_case)(c, st)
    return st


def shard_e2e(arg):
    seed, n_cases = arg
    st = Stats()
    from hypothesis import strategies as hs

    @hs.composite
    def c(draw):
        g = draw(c04.graph_strategy(6, True))
        n = g["n"]
        edges = [tuple(e) for e in g["edges"]]
        m = len(edges)
        pat = draw(hs.lists(hs.integers(0, 1), min_size=m, max_size=m))
        mode = draw(hs.integers(0, 2))
        kept = [e for e, b in zip(edges, pat) if not b]
        label, cc = graphref.components(n, kept)
        true_sizes = [label.count(label[v]) for v in range(n)]
        if mode == 0:
            sizes = None
        else:
            sizes = [true_sizes[v] if draw(hs.integers(0, 2)) else None for v in range(n)]
            if mode == 2:
                v = draw(hs.integers(0, n - 1))
                sizes[v] = draw(hs.integers(1, n))
            sizes = ["list", sizes]
        if draw(hs.booleans()):
            # remove redundant borders so that SAT cases are common
            pat = [int(b and label[u] != label[v]) for (u, v), b in zip(edges, pat)]
        return dict(g, form="border", sizes=sizes, borders=pat, native=draw(hs.booleans()))

    def body(case):
        st.case(canon=case, nontrivial=case["sizes"] is not None and sum(case["borders"]) >= 1,
                classes=["e2e", "e2e:" + ("native" if case["native"] else "rank")], sample=case)
        e2e_border(case)

    hyp_search(st, c(), body, seed=seed, max_examples=n_cases, check="c07.e2e")
    return st


def run(ctx):
    ctx.rule = (
        "grouped form: every labelled simple graph on <= 4 vertices, a derived sample of 5- and 6-vertex "
        "graphs, grid shapes with h*w <= 6, x size specifications (absent, constant, shared IntVar with "
        "bounds, per-vertex list with None holes read off a derived target partition and perturbed, "
        "IntArray1D/2D, 2-D lists with and without shape inference) x ALL set partitions (Bell(n)); border "
        "form: the same graphs with m <= 10 x per-vertex sizes x both encodings x ALL 2^m border patterns, "
        "BoolInnerGridFrame + IntArray2D included; decided on the posted program by an independent solver. "
        "non-trivial = >= 2 blocks, one of size >= 2, a size specified; distinct by construction")
    ctx.assumptions = ["the native graph-division atom is evaluated with the reference semantics (layout "
                       "n m sizes.. edges.. borders.., validated against the emitted text by C03)"]
    quick = ctx.quick()
    graphs = []
    idx = 0
    for n in range(1, 7 if not quick else 6):
        for edges in graphref.all_simple_graphs(n):
            idx += 1
            if n == 5 and derive(ctx.seed, "g5", idx) % (40 if quick else 8):
                continue
            if n == 6 and derive(ctx.seed, "g6", idx) % 1500:
                continue
            vs = c04.orientation_variants(edges)
            graphs.append(dict(n=n, edges=vs[derive(ctx.seed, "orient", idx) % len(vs)]))
    for h in range(1, 7):
        for w in range(1, 6 // h + 1):
            graphs.append(dict(grid=[h, w]))
    grouped, border = [], []
    for gi, g in enumerate(graphs):
        n, edges = c04.spec_of(g)
        for si, spec in enumerate(size_specs(ctx.seed, ("G", gi), n, edges, False)):
            c = dict(g, form="grouped", sizes=spec)
            if "grid" in g and spec is not None and spec[0] in ("list", "array"):
                c["infer_shape"] = bool(derive(ctx.seed, "inf", gi, si) % 2)
            grouped.append(c)
        if len(edges) <= 10:
            for si, spec in enumerate(size_specs(ctx.seed, ("B", gi), n, edges, True)):
                for nat in (False, True):
                    border.append(dict(g, form="border", sizes=spec, native=nat,
                                       border_array=bool(derive(ctx.seed, "ba", gi, si) % 2)))
            if "grid" in g:
                full = size_specs(ctx.seed, ("B", gi), n, edges, True)[3]
                for nat in (False, True):
                    border.append(dict(g, form="border", sizes=full, native=nat, frame=True))
    k = 16 if quick else 48
    grouped.sort(key=lambda c: -c04.spec_of(c)[0])
    border.sort(key=lambda c: -len(c04.spec_of(c)[1]))
    jobs = [("grouped", grouped[i::k]) for i in range(k)] + [("border", border[i::k]) for i in range(k)]
    for r in pmap(shard, jobs):
        ctx.stats.merge(r)
    for r in pmap(shard_e2e, [(ctx.seed * 1000 + 80 + i, 80 if quick else 1500) for i in range(8 if quick else 16)]):
        ctx.stats.merge(r)
    wshapes = [(3, 4), (4, 4), (5, 5), (4, 6), (5, 6), (2, 9)]
    for r in pmap(shard_winding, [(ctx.seed * 1000 + 95 + i, sh, 24 if quick else 300) for i, sh in enumerate(wshapes)]):
        ctx.stats.merge(r)
    ctx.floor("winding partitions that are valid", ctx.stats.classes["winding:valid"], 30)
    ctx.floor("winding partitions that are invalid", ctx.stats.classes["winding:invalid"], 10)
    cl = ctx.stats.classes
    tot = max(1, cl["grouped"] + cl["border"])
    ctx.floor("cases with None holes (share)", round(cl["sizes-with-holes"] / tot, 3), 0.15)
    ctx.floor("UNSAT because of size only (share)", round(cl["unsat-because-of-size-only"] / tot, 3), 0.10)
    ctx.floor("UNSAT because of a redundant border (share of border patterns)",
              round(cl["redundant-border"] / max(1, cl["border"]), 3), 0.25)
    ctx.floor("native border patterns", cl["border:native"], 2000)


def replay(ctx, rep):
    case = rep["case"]
    if rep.get("check") == "c07.e2e":
        e2e_border(case)
        return
    if rep.get("check") == "c07.winding":
        winding_case(case)
        return
    st = Stats()
    c = dict(case)
    c.pop("partition", None)
    c.pop("borders", None)
    (grouped_case if c["form"] == "grouped" else border_case)(c, st)
    if st.failures:
        sig, d = sorted(st.failures.items())[0]
        raise Failure(sig, observed=d["observed"], expected=d["expected"])
